#!/bin/bash
# Runs every registered quick check once and validates the evidence files against the schema.
cd /verif
for P in $(python3 -c "import json;print(' '.join(c['property_id'] for c in json.load(open('MANIFEST.json'))['checks']))" 2>/dev/null | tail -1); do
  S=$(date +%s)
  OUT=$(./check $P --tier ${1:-quick} 2>&1); RC=$?
  E=$(date +%s)
  echo "$P exit=$RC $((E-S))s $(echo "$OUT" | grep -c '^VIOLATION') violations, $(echo "$OUT" | grep -c '^KNOWN-FINDING') known | $(echo "$OUT" | grep '^check' | tail -1 | cut -c1-160)"
done
/opt/veriftools/pyvenv/bin/python3 - <<'PY'
import json, jsonschema, glob
sch = json.load(open('/root/.vp/EVIDENCE.schema.json'))
for f in sorted(glob.glob('/verif/evidence/C*.json')):
    if 'CORPUS' in f: continue
    try:
        jsonschema.validate(json.load(open(f)), sch); print('evidence ok', f)
    except Exception as e:
        print('EVIDENCE INVALID', f, str(e)[:300])
PY
