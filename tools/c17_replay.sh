#!/bin/bash
# c17_replay.sh <replay.json>: rebuilds the default build and the configuration named in the replay,
# re-runs the part of the corpus that feeds the differing shard in transcript mode in both and
# compares the transcripts. exit 1 + "reproduced: true" if they still differ.
set -u
V="$(cd "$(dirname "$0")/.." && pwd)"
F="$1"
export CARGO_NET_OFFLINE=true MALLOC_TRIM_THRESHOLD_=2000000000 MALLOC_TOP_PAD_=67108864
CFG=$(python3 -c "import json,sys;print(json.load(open(sys.argv[1]))['detail']['configuration'])" "$F" 2>/dev/null | tail -1)
SHARD=$(python3 -c "import json,sys;print(json.load(open(sys.argv[1]))['detail']['shard'])" "$F" 2>/dev/null | tail -1)
TIER=$(python3 -c "import json,sys,re;m=re.search(r'--tier (\w+)',json.load(open(sys.argv[1]))['how_to_replay']);print(m.group(1) if m else 'quick')" "$F" 2>/dev/null | tail -1)
OTHER="${CFG%%:*}"
case "$OTHER" in
  default) TOOL=""; ARGS="";;
  fast-legacy) TOOL=""; ARGS="--features fast-legacy";;
  less-slow) TOOL=""; ARGS="--features less-slow";;
  less-slow-fast) TOOL=""; ARGS="--features less-slow,fast-legacy";;
  simd-std) TOOL="+nightly"; ARGS="--features simd-accel,std";;
  simd-nostd) TOOL="+nightly"; ARGS="--features simd-accel";;
  simd-std-fast) TOOL="+nightly"; ARGS="--features simd-accel,std,fast-legacy";;
  *) echo "MACHINERY: unknown configuration $OTHER in $F" >&2; exit 2;;
esac
( cd $V/harness && flock $V/.build-target-default.lock env CARGO_TARGET_DIR=$V/target-default cargo build --release --offline >$V/.build-target-default.log 2>&1 ) || { echo "MACHINERY: default build failed" >&2; exit 2; }
( cd $V/harness && flock $V/.build-target-$OTHER.lock env CARGO_TARGET_DIR=$V/target-$OTHER cargo $TOOL build --release --offline $ARGS >$V/.build-target-$OTHER.log 2>&1 ) || { echo "MACHINERY: build of $OTHER failed" >&2; exit 2; }
run() { # $1 cfg  $2 shard -> sorted transcript on stdout
  local out=$V/c17/$1/transcript-replay.txt; mkdir -p $V/c17/$1; rm -f $out
  VERIF_DIR=$V/c17/$1 VERIF_TRANSCRIPT_SHARD="$2" VERIF_TRANSCRIPT_OUT=$out $V/target-$1/release/vh check C17CORPUS --tier "$TIER" >/dev/null 2>&1
  sort -u $out 2>/dev/null; rm -f $out
}
case "$CFG" in
  *:scalar-switch) A=$(run $OTHER "val/utf8_valid_up_to/fast" | cut -f2-); B=$(run $OTHER "val/utf8_valid_up_to/scalar" | cut -f2-); WHAT="SIMD-validator path vs scalar path in build $OTHER";;
  *) A=$(run default "$SHARD"); B=$(run $OTHER "$SHARD"); WHAT="default vs $OTHER, shard $SHARD";;
esac
if [ -z "$A" ] && [ -z "$B" ]; then echo "MACHINERY: empty transcripts for shard $SHARD" >&2; exit 2; fi
if [ "$A" != "$B" ]; then
  diff <(echo "$A") <(echo "$B") | head -6 | cut -c1-400
  echo "reproduced: true ($WHAT: the transcripts differ)"
  exit 1
fi
echo "reproduced: false ($WHAT: $(echo "$A" | wc -l) cases, identical transcripts)"
exit 0
