#!/usr/bin/env python3
"""Derive the frozen oracle data under /verif/spec (run once; kept for provenance).

Sources (see DESIGN.md section 4):
  * two-byte indexes: the WHATWG-generated reference files tests/test_data/*_in.txt and
    *_in_ref.txt of the pinned commit (every pointer, mapped or not, in pointer order);
    cross-checked here against CPython's independent codecs where an equivalent exists.
  * gb18030 ranges: CPython's gb18030 codec (four-byte forms), run-length compressed.
  * 28 single-byte indexes: CPython codec tables plus three documented rules.
  * labels: src/test_labels_names.rs (generated from the Standard's encodings.json),
    cross-checked against pip's vendored copy of webencodings/labels.py.
Checks never run this script; they read the frozen files.
"""
import os, re, sys, importlib.util

REPO = sys.argv[1] if len(sys.argv) > 1 else "/repo"
OUT = os.path.join(os.path.dirname(os.path.dirname(os.path.abspath(__file__))), "spec")
os.makedirs(OUT, exist_ok=True)
report = []

def body(path):
    data = open(os.path.join(REPO, "tests/test_data", path), "rb").read()
    marker = b"generate-encoding-data.py\n"
    i = data.index(marker) + len(marker)
    return data[i:]

def ref_lines(path):
    # every line is one test case; the decoded text never contains LF
    return body(path).decode("utf-8").split("\n")[:-1]

def in_lines_fixed(path, width):
    b = body(path)
    out = []
    i = 0
    while i < len(b):
        out.append(b[i:i + width])
        assert b[i + width] == 0x0A, (path, i)
        i += width + 1
    return out

def write_index(name, idx):
    with open(os.path.join(OUT, name + ".txt"), "w") as f:
        f.write("# index %s: one line per pointer, hex code point, 0 = no mapping\n" % name)
        for c in idx:
            f.write("%X\n" % c)
    report.append("%s: %d pointers, %d mapped" % (name, len(idx), sum(1 for c in idx if c)))

def index_from(infile, reffile, width, ptr_of, size, two_char=None):
    ins = in_lines_fixed(infile, width)
    refs = ref_lines(reffile)
    assert len(ins) == len(refs) == size, (infile, len(ins), len(refs), size)
    idx = [0] * size
    for p, (b, r) in enumerate(zip(ins, refs)):
        assert ptr_of(b) == p, (infile, p, b)
        if two_char and p in two_char:
            assert r == two_char[p]
            idx[p] = 0  # handled by rule in the decoder
            continue
        if r[0] == "�":
            # unmapped: U+FFFD alone, or U+FFFD followed by the pushed-back ASCII trail
            assert len(r) == 1 or (len(r) == 2 and ord(r[1]) == b[-1] and b[-1] < 0x80), (infile, p, r)
            idx[p] = 0
        else:
            assert len(r) == 1, (infile, p, r)
            idx[p] = ord(r)
    return idx

# ---- Big5
def big5_ptr(b):
    lead, trail = b
    return (lead - 0x81) * 157 + (trail - (0x40 if trail < 0x7F else 0x62))
big5_two = {1133: "Ê̄", 1135: "Ê̌", 1164: "ê̄", 1166: "ê̌"}
big5 = index_from("big5_in.txt", "big5_in_ref.txt", 2, big5_ptr, 19782, big5_two)
write_index("big5", big5)

# ---- EUC-KR
def euckr_ptr(b):
    return (b[0] - 0x81) * 190 + b[1] - 0x41
euckr = index_from("euc_kr_in.txt", "euc_kr_in_ref.txt", 2, euckr_ptr, 23940)
write_index("euc-kr", euckr)

# ---- gb18030 two-byte
def gb_ptr(b):
    return (b[0] - 0x81) * 190 + (b[1] - (0x40 if b[1] < 0x7F else 0x41))
gb = index_from("gb18030_in.txt", "gb18030_in_ref.txt", 2, gb_ptr, 23940)
write_index("gb18030", gb)

# ---- jis0208 (through the Shift_JIS files, which cover all 11280 pointers)
def sjis_ptr(b):
    lead, trail = b
    l = lead - (0x81 if lead < 0xA0 else 0xC1)
    return l * 188 + (trail - (0x40 if trail < 0x7F else 0x41))
jis0208 = index_from("shift_jis_in.txt", "shift_jis_in_ref.txt", 2, sjis_ptr, 11280)
for p in range(8836, 10716):
    assert jis0208[p] == 0xE000 - 8836 + p
    jis0208[p] = 0  # EUDC range is a decoder rule, not part of the index
# consistency with the EUC-JP-shaped file (first 8836 pointers)
def euc_ptr(b):
    return (b[0] - 0xA1) * 94 + b[1] - 0xA1
j2 = index_from("jis0208_in.txt", "jis0208_in_ref.txt", 2, euc_ptr, 8836)
assert j2 == jis0208[:8836]
write_index("jis0208", jis0208)

# ---- jis0212
def j212_ptr(b):
    assert b[0] == 0x8F
    return (b[1] - 0xA1) * 94 + b[2] - 0xA1
jis0212 = index_from("jis0212_in.txt", "jis0212_in_ref.txt", 3, j212_ptr, 8836)
write_index("jis0212", jis0212)

# ---- ISO-2022-JP katakana: the last 63 lines of iso_2022_jp_out*.txt
outs = ref_lines("iso_2022_jp_out.txt")[-63:]
b = body("iso_2022_jp_out_ref.txt")
rows = b.split(b"\n")[:-1][-63:]
kat = []
for i, (ch, row) in enumerate(zip(outs, rows)):
    assert ord(ch) == 0xFF61 + i
    assert row[:3] == b"\x1b$B" and row[5:] == b"\x1b(B", row
    p = (row[3] - 0x21) * 94 + row[4] - 0x21
    kat.append(jis0208[p])
write_index("iso-2022-jp-katakana", kat)

# ---- cross-checks against CPython codecs
def cp_decode(codec, bs):
    try:
        s = bs.decode(codec)
        return ord(s) if len(s) == 1 else 0
    except UnicodeDecodeError:
        return 0
d = 0
for p, c in enumerate(euckr):
    bs = bytes([p // 190 + 0x81, p % 190 + 0x41])
    if cp_decode("cp949", bs) != c:
        d += 1
report.append("euc-kr vs CPython cp949: %d differences" % d)
d = 0
for p in range(11280):
    lead, trail = divmod(p, 188)
    bs = bytes([lead + (0x81 if lead < 0x1F else 0xC1), trail + (0x40 if trail < 0x3F else 0x41)])
    exp = jis0208[p] or (0xE000 - 8836 + p if 8836 <= p <= 10715 else 0)
    if cp_decode("cp932", bs) != exp:
        d += 1
report.append("jis0208+EUDC vs CPython cp932: %d differences" % d)
diffs = []
for p, c in enumerate(gb):
    lead, trail = divmod(p, 190)
    bs = bytes([lead + 0x81, trail + (0x40 if trail < 0x3F else 0x41)])
    if cp_decode("gb18030", bs) != c:
        diffs.append("%02X%02X:py=%X,whatwg=%X" % (bs[0], bs[1], cp_decode("gb18030", bs), c))
report.append("gb18030 two-byte vs CPython gb18030: %d differences: %s" % (len(diffs), " ".join(diffs)))

# ---- gb18030 ranges from CPython four-byte forms
def four(p):
    return bytes([p // 12600 + 0x81, p % 12600 // 1260 + 0x30, p % 1260 // 10 + 0x81, p % 10 + 0x30])
runs = []  # (pointer, code point) starts of linear runs; gaps recorded with cp 0
prev = None
for p in range(0, 39420):
    c = cp_decode("gb18030", four(p))
    if prev is None or c == 0 or prev[1] == 0 or c != prev[1] + (p - prev[0]):
        if c == 0:
            if prev is None or prev[1] != 0 or True:
                if not (runs and runs[-1][1] == 0 and prev is not None and prev[1] == 0):
                    runs.append((p, 0))
            prev = (p, 0)
            continue
        runs.append((p, c))
    prev = (p, c)
with open(os.path.join(OUT, "gb18030-ranges.txt"), "w") as f:
    f.write("# gb18030 ranges below pointer 39420: 'pointer codepoint' (hex code point, 0 = unmapped gap) starts of linear runs\n")
    for p, c in runs:
        f.write("%d %X\n" % (p, c))
report.append("gb18030 ranges: %d runs (incl. %d gaps); first %s last %s" % (
    len(runs), sum(1 for r in runs if r[1] == 0), runs[0], runs[-1]))
# sanity: supplementary planes
assert cp_decode("gb18030", four(189000)) == 0x10000
assert cp_decode("gb18030", four(1237575)) == 0x10FFFF

# ---- single-byte
SB = {
    "IBM866": "cp866", "ISO-8859-2": "iso8859_2", "ISO-8859-3": "iso8859_3", "ISO-8859-4": "iso8859_4",
    "ISO-8859-5": "iso8859_5", "ISO-8859-6": "iso8859_6", "ISO-8859-7": "iso8859_7", "ISO-8859-8": "iso8859_8",
    "ISO-8859-8-I": "iso8859_8", "ISO-8859-10": "iso8859_10", "ISO-8859-13": "iso8859_13",
    "ISO-8859-14": "iso8859_14", "ISO-8859-15": "iso8859_15", "ISO-8859-16": "iso8859_16",
    "KOI8-R": "koi8_r", "KOI8-U": "koi8_u", "macintosh": "mac_roman", "windows-874": "cp874",
    "windows-1250": "cp1250", "windows-1251": "cp1251", "windows-1252": "cp1252", "windows-1253": "cp1253",
    "windows-1254": "cp1254", "windows-1255": "cp1255", "windows-1256": "cp1256", "windows-1257": "cp1257",
    "windows-1258": "cp1258", "x-mac-cyrillic": "mac_cyrillic",
}
with open(os.path.join(OUT, "single-byte.txt"), "w") as f:
    f.write("# 28 single-byte indexes: name line, then 128 hex code points (0 = no mapping) on one line\n")
    for name in sorted(SB):
        codec = SB[name]
        idx = []
        for b in range(0x80, 0x100):
            c = cp_decode(codec, bytes([b]))
            # rule 1: undefined bytes in 0x80-0x9F of windows-* map to the same-numbered C1 control
            if c == 0 and b < 0xA0 and name.startswith("windows-"):
                c = b
            idx.append(c)
        if name == "KOI8-U":  # rule 2: KOI8-RU additions
            idx[0xAE - 0x80] = 0x045E
            idx[0xBE - 0x80] = 0x040E
        if name == "windows-1255":  # rule 3
            idx[0xCA - 0x80] = 0x05BA
        f.write(name + "\n" + " ".join("%X" % c for c in idx) + "\n")
report.append("single-byte: %d indexes" % len(SB))

# ---- labels
src = open(os.path.join(REPO, "src/test_labels_names.rs")).read()
pairs = re.findall(r'for_label\(b"([^"]+)"\),\s*Some\(([A-Z0-9_]+)\)', src)
consts = open(os.path.join(REPO, "src/lib.rs")).read()
name_of = {}
for m in re.finditer(r'pub static ([A-Z0-9_]+)_INIT: Encoding = Encoding \{\s*name: "([^"]+)"', consts):
    name_of[m.group(1)] = m.group(2)
labels = [(l, name_of[c]) for l, c in pairs]
assert len(labels) == 228, len(labels)
with open(os.path.join(OUT, "labels.txt"), "w") as f:
    f.write("# label<TAB>encoding name (the Standard's table, 228 labels)\n")
    for l, n in labels:
        f.write("%s\t%s\n" % (l, n))
# cross-check against webencodings (older snapshot of the Standard's table)
try:
    spec = importlib.util.spec_from_file_location(
        "labels", "/usr/lib/python3/dist-packages/pip/_vendor/webencodings/labels.py")
    mod = importlib.util.module_from_spec(spec); spec.loader.exec_module(mod)
    mine = {l: n.lower() for l, n in labels}
    common = [l for l in mod.LABELS if l in mine]
    bad = [l for l in common if mod.LABELS[l].lower() != mine[l]]
    report.append("labels: 228; webencodings has %d, common %d, disagreeing %d %s; only in webencodings: %s" % (
        len(mod.LABELS), len(common), len(bad), bad, sorted(set(mod.LABELS) - set(mine))))
except Exception as e:
    report.append("labels: webencodings cross-check unavailable: %r" % e)

with open(os.path.join(OUT, "DERIVATION_REPORT.txt"), "w") as f:
    f.write("\n".join(report) + "\n")
print("\n".join(report))
