#!/bin/bash
# run_benign.sh <id> [<check> ...] : applies the benign change to /repo, runs the quick checks
# named (default: all 20), reverts /repo, records which checks stayed silent / raised an alarm.
set -u
ID="$1"; shift
CHECKS="$*"; [ -z "$CHECKS" ] && CHECKS="C01 C02 C03 C04 C05 C06 C07 C08 C09 C10 C11 C12 C13 C14 C15 C16 C17 C18 C19 C20"
cd /verif
if [ -n "$(git -C /repo status --porcelain --untracked-files=no)" ]; then echo "/repo not clean"; exit 3; fi
git -C /repo apply "/verif/benign/$ID/patch.diff" || exit 3
SILENT=""; ALARM=""; MACH=""
mkdir -p /tmp/benign_logs
for P in $CHECKS; do
  OUT=$(./check "$P" --tier quick 2>&1); RC=$?
  echo "$OUT" > /tmp/benign_logs/$ID.$P.log
  if [ $RC -eq 0 ]; then SILENT="$SILENT $P"; elif [ $RC -eq 1 ]; then ALARM="$ALARM $P"; echo "[$ID] ALARM $P: $(echo "$OUT" | grep -A1 "^VIOLATION" | sed -n 2p | cut -c1-300)"; else MACH="$MACH $P"; echo "[$ID] MACHINERY $P: $(echo "$OUT" | tail -3 | cut -c1-300)"; fi
done
git -C /repo checkout -- .
python3 - "$ID" "$SILENT" "$ALARM" "$MACH" <<'PY'
import json,sys,os
id,s,a,m=sys.argv[1:5]
p=f'/verif/benign/{id}/meta.json'
meta=json.load(open(p)) if os.path.exists(p) else {"id":id}
# the latest outcome of a check replaces its earlier one; checks not run this time keep theirs
ran=set(s.split())|set(a.split())|set(m.split())
for k,v in (("quick_checks_silent",s),("quick_checks_alarm",a),("quick_checks_machinery",m)):
    meta[k]=sorted((set(meta.get(k,[]))-ran)|set(v.split()))
json.dump(meta,open(p,'w'),indent=1)
PY
echo "[$ID] silent:$SILENT | alarm:$ALARM | machinery:$MACH"
