#!/bin/bash
# run_seed.sh <seed id> <check> [<check> ...] : applies the seeded change to /repo, runs the quick
# checks named, reverts /repo, and records which of them reported a violation.
set -u
ID="$1"; shift
cd /verif
if [ -n "$(git -C /repo status --porcelain --untracked-files=no)" ]; then echo "/repo not clean"; exit 3; fi
git -C /repo apply "/verif/seeded/$ID/patch.diff" || exit 3
CAUGHT=""; MISSED=""
for P in "$@"; do
  OUT=$(./check "$P" --tier quick 2>&1); RC=$?
  V=$(echo "$OUT" | grep -c "^VIOLATION")
  echo "[$ID] check $P: exit $RC, $V violation lines: $(echo "$OUT" | grep -A1 "^VIOLATION" | sed -n 2p | cut -c1-260)"
  if [ $RC -eq 1 ]; then CAUGHT="$CAUGHT $P"; else MISSED="$MISSED $P"; fi
  if [ $RC -ge 2 ]; then echo "$OUT" | tail -5; fi
  # the replay artefact of the first violation must reproduce on the changed tree ...
  if [ $RC -eq 1 ] && [ -z "${RP:-}" ]; then
    RP=$(echo "$OUT" | grep -m1 "^VIOLATION" | sed -n 's/.*replay=//p'); RPP=$P
    case "$RP" in *.json) ROUT=$(./check "$P" --replay "$RP" 2>&1); RRC=$?; RWITH="exit $RRC: $(echo "$ROUT" | grep -m1 '^reproduced' | cut -c1-80)";; *) RWITH="not a JSON replay";; esac
  fi
done
git -C /repo checkout -- .
# ... and not on the unchanged tree
RWITHOUT=""
if [ -n "${RP:-}" ]; then
  case "$RP" in *.json) ROUT=$(./check "$RPP" --replay "$RP" 2>&1); RRC=$?; RWITHOUT="exit $RRC: $(echo "$ROUT" | grep -m1 '^reproduced' | cut -c1-80)";; esac
  echo "[$ID] replay $RP | with change: $RWITH | without: $RWITHOUT"
fi
export RWITH RWITHOUT
python3 - "$ID" "$CAUGHT" "$MISSED" <<'PY'
import json,sys
id,c,m=sys.argv[1:4]
p=f'/verif/seeded/{id}/meta.json'
meta=json.load(open(p))
# the latest outcome of a check replaces its earlier one; checks not run this time keep theirs
ran=set(c.split())|set(m.split())
meta["caught_by"]=sorted((set(meta.get("caught_by",[]))-ran)|set(c.split()))
meta["not_caught_by"]=sorted((set(meta.get("not_caught_by",[]))-ran)|set(m.split()))
import os
if os.environ.get("RWITH"):
    meta["replay_of_first_violation"]={"with_change":os.environ.get("RWITH"),"on_unchanged_tree":os.environ.get("RWITHOUT","")}
json.dump(meta,open(p,'w'),indent=1)
PY
echo "[$ID] caught by:$CAUGHT   missed by:$MISSED"
