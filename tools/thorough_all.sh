#!/bin/bash
# all thorough checks, sequentially (each uses all cores)
for P in C01 C03 C04 C05 C07 C08 C09 C10 C11 C12 C13 C14 C15 C16 C18 C19 C20 C02 C06 C17; do
  S=$(date +%s)
  OUT=$(VERIF_MAX_RSS_GB=28 ./check $P --tier thorough 2>&1); RC=$?
  E=$(date +%s)
  echo "$P exit=$RC $((E-S))s $(echo "$OUT" | grep -c '^VIOLATION') violations $(echo "$OUT" | grep -c '^KNOWN-FINDING') known | $(echo "$OUT" | grep '^check' | tail -2 | tr '\n' ' ' | cut -c1-330)"
  echo "$OUT" | grep -E "^VIOLATION|^MACHINERY|^  " | head -6 | cut -c1-300
done
