#!/usr/bin/env python3
"""Fills the table of DESIGN.md section 14 from /verif/benign/*/meta.json."""
import json, glob, os, re
V = os.path.dirname(os.path.dirname(os.path.abspath(__file__)))
rows = []
for d in sorted(glob.glob(f"{V}/benign/*/")):
    bid = os.path.basename(d.rstrip("/"))
    m = json.load(open(d + "meta.json")) if os.path.exists(d + "meta.json") else {}
    readme = open(d + "README.md").read() if os.path.exists(d + "README.md") else ""
    lines = [l.strip("# *-").strip() for l in readme.splitlines() if l.strip() and not l.startswith("```")]
    summ = next((l for l in lines if len(l) > 25), "")
    summ = re.sub(r"\s+", " ", summ)[:160].replace("|", "/")
    rows.append((bid, summ, str(len(m.get("quick_checks_silent", []))), " ".join(m.get("quick_checks_alarm", [])) or "-", " ".join(m.get("quick_checks_machinery", [])) or "-"))
t = ["| change | what it does (first line of its README) | quick checks silent | alarms | machinery errors |", "|---|---|---|---|---|"]
for r in rows:
    t.append("| %s | %s | %s | %s | %s |" % r)
t.append("")
t.append(f"{len(rows)} property-preserving changes; {sum(1 for r in rows if r[3] == '-' and r[4] == '-' and r[2] != '0')} leave every quick check that was run silent.")
p = f"{V}/DESIGN.md"
s = open(p).read()
block = "<!-- BENIGN TABLE BEGIN -->\n" + "\n".join(t) + "\n<!-- BENIGN TABLE END -->"
a = s.index("<!-- BENIGN TABLE BEGIN -->")
b = s.index("<!-- BENIGN TABLE END -->") + len("<!-- BENIGN TABLE END -->")
s = s[:a] + block + s[b:]
open(p, "w").write(s)
print(t[-1])
