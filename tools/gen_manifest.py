#!/usr/bin/env python3
"""Writes /verif/MANIFEST.json from the table below (single source of truth for the interface)."""
import json, os

V = os.path.dirname(os.path.dirname(os.path.abspath(__file__)))

X = "explicit-state model checking of the real converter: BFS to a fixpoint over (real converter state via clone hook, reference transducer state, bounded output debt, unconsumed remainder); every transition is one real public-API call"
S = "bounded-exhaustive enumeration of the function's input space against a reference definition"

checks = {
 "C01": ("model_checking", X + "; plus exhaustive single-call sweeps (all 1-2 byte streams x 40 encodings, structured 3/4-byte families) against the Standard's decoder incl. absolute error spans",
         "Streams are complete enumerations of the stated families; the explorer classifies every divergence by re-running the whole stream in one call. Does not cover arbitrary long streams beyond the fixpoint alphabet.", "§6 C01"),
 "C02": ("model_checking", X + "; oracle: chunked history == single call on the same stream (implementation against itself), reference only keys the search",
         "Inductive over all histories built from the action alphabet (chunks of <= k class symbols x capacities around every threshold x last); byte values outside the class alphabets are covered at k<=2 by the thorough full-alphabet tier.", "§6 C02"),
 "C03": ("model_checking", X + " for encoder state transitions; plus exhaustive sweep of all 1,112,064 scalar values x 40 encoders x {UTF-8,UTF-16} x {with,without replacement} and surrogate arrangements against the Standard's encoder",
         "Every scalar alone is enumerated completely; sequences are covered by the explorer's fixpoint over the text alphabet.", "§6 C03"),
 "C04": ("model_checking", X + " (encoder); oracle: chunked history == one call on the whole text; read must fall on a character boundary of the caller's chunk",
         "Inductive over all histories of the text alphabet (every scalar shape of the reference encoder, lone/reversed surrogates, ASCII runs) x capacities around check_space and NCR_EXTRA thresholds.", "§6 C04"),
 "C05": ("model_checking", X + " with &mut str / String sinks, 12 adversarial prior contents per call, reuse of finished decoders; plus sweeps of mem::convert_*_to_str*",
         "Whole destination validated after every explored call; simd-accel build is exercised by the thorough tier.", "§6 C05"),
 "C06": ("model_checking", X + " with guard bands, sub-minimum capacities, start alignments, String/Vec container checks; plus mem/validator/classifier sweeps under guard bands and panic capture",
         "Out-of-bounds writes are caught by canaries, panics by capture; out-of-bounds reads only by the ASan build of the thorough tier.", "§6 C06"),
 "C07": ("model_checking", X + "; at every reachable state every action is also executed with exactly the queried capacity (however small); mixed-method runs make the query of one method in states only another sink / replacement mode reaches; overflow ladder for monotonicity at every state",
         "Covers all states reachable over the class alphabets in all three BOM modes; encoder side incl. if_no_unmappables.", "§6 C07"),
 "C08": ("model_checking", X + "; per-transition progress plus longest-path/positive-cycle analysis of the explored call graph with weight calls-4*read",
         "The bound calls <= 4n+16 is decided on the whole finite graph, not on sampled paths.", "§6 C08"),
 "C09": ("model_checking", X + "; per-call had_errors/had_unmappables classified against the reference; every complete history replayed as the documented manual procedure on the without-replacement method; plus exhaustive sweeps (C01 stream families and error-dense heads for decoders incl. the one-shot form, every scalar value and the NCR length ladder at every capacity for encoders) of with-replacement against manual procedure",
         "Twin comparison is implementation against implementation on identical chunk boundaries.", "§6 C09"),
 "C10": ("model_checking", X + " with the BOM mode in the configuration for all 40 encodings x 3 modes; Decoder::encoding() checked on every transition; for_bom swept over all strings of length <= 3",
         "BOM-byte symbols are offered while the stream is undecided; after a switch a reduced alphabet is used because the switched decoder's own space is explored by its nominal run.", "§6 C10"),
 "C11": ("exploration", S + ": one-shot decode*/encode against the streaming driver on run-length/position families up to 4 K", "Lengths beyond 4097 are not enumerated.", "§6 C11"),
 "C12": ("model_checking", X + " (encoder) with a real decoder of the same encoding in the product state fed with all output so far; has_pending_state vs reference shift state; plus the exhaustive round-trip sweep of every scalar value alone and between neighbours through all 40 encoders",
         "Without replacement the driver appends the NCR itself (documented manual procedure), otherwise two escape sequences in a row would be an artefact of the driver.", "§6 C12"),
 "C13": ("exploration", S + ": get-an-encoding over all short strings and the complete 1-edit / case / padding neighbourhood of all 228 labels", "Strings longer than the families are not enumerated.", "§6 C13"),
 "C14": ("exploration", S + ": validators vs std over core sequences x every prefix length x suffix x alignment, SIMD path on and off", "Lengths to 160; simd-accel build in the thorough tier.", "§6 C14"),
 "C15": ("exploration", S + ": 20 mem conversions vs std over shape space x all destination lengths", "Lengths to 96 (thorough); simd-accel build in the thorough tier.", "§6 C15"),
 "C16": ("exploration", S + ": every scalar / code unit alone and planted at every position", "Buffer lengths to 64.", "§6 C16"),
 "C17": ("exploration", "the same deterministic corpus (all scalars x all encoders, all 2-byte streams x all decoders, validator/mem/classifier sweeps, quick explorer tiers) executed in every build configuration; digests of logical outputs compared, each build also checked against the reference",
         "Configurations: default, less-slow-*, fast-legacy-encode, simd-accel(+std) on nightly, scalar-UTF-8 switch.", "§6 C17"),
 "C18": ("model_checking", X + " with every call executed under three destination pre-fills; mem sweeps likewise", "Miri pass over uninitialised capacity is part of the thorough tier.", "§6 C18"),
 "C19": ("model_checking", X + "; at every reachable (decoder, reference) state the query is made with ASCII runs of every length 0..N followed by every alphabet symbol",
         "None/Some requirement derived from the reference state; exactness and non-disturbance checked for every Some.", "§6 C19"),
 "C20": ("exploration", S + ": predicates vs behaviour of the same build over the complete separating space (all strings of length <= 2, all scalar values, ASCII also in non-ASCII / punctuation context from both source forms)", "Finite space enumerated completely in both tiers.", "§6 C20"),
}

engine_of = lambda lvl: "X" if lvl == "model_checking" else "S"
out_checks = []
for pid in sorted(checks):
    lvl, text, note, ref = checks[pid]
    if not os.path.exists(os.path.join(V, "CLAIMED")) :
        pass
    out_checks.append({
        "property_id": pid,
        "quick_cmd": "./check %s --tier quick" % pid,
        "thorough_cmd": "./check %s --tier thorough" % pid,
        "evidence_file": "/verif/evidence/%s.json" % pid,
        "replay_cmd_template": "./check %s --replay {path}" % pid,
        "engine": "engine-" + engine_of(lvl),
        "level_claimed": {"category": lvl, "text": text, "design_ref": "DESIGN.md " + ref},
        "level_note": note + " Trusted base: the reference transcription of the Encoding Standard and the frozen index data under /verif/spec; rustc/std; x86_64 only.",
        "technique": ("explicit-state model checking (BFS to fixpoint on the real code, reference in lock-step)" if lvl == "model_checking" else "bounded-exhaustive enumeration of the input space (no sampling)"),
    })

claimed_file = os.path.join(V, "tools", "claimed.txt")
claimed = [l.strip() for l in open(claimed_file) if l.strip()] if os.path.exists(claimed_file) else sorted(checks)
manifest = {
    "version": 1,
    "setup_cmd": "/verif/tools/setup.sh",
    "hooks": {
        "guard": "cargo feature hsivonen_encoding_rs_verif (off by default)",
        "enable": "the harness crate /verif/harness depends on /repo by path with features=[\"hsivonen_encoding_rs_verif\"]; ./check rebuilds it from /repo's working tree",
        "baseline_off_cmd": "cd /repo && cargo test --workspace --no-fail-fast --offline",
        "source_commits": ["f447ad7"],
        "fix_commits": ["58136fe", "b382b18", "d3eb21d", "b2fd07c", "ee102c5", "ff5c334", "61f3045"],
        "add_only": True,
    },
    "engines": [
        {"name": "engine-X", "path": "/verif/harness/src/xdec.rs, /verif/harness/src/xenc.rs", "serves_properties": [p for p in sorted(checks) if checks[p][0] == "model_checking"],
         "kind_free_text": "purpose-built explicit-state explorer: breadth-first search whose transition function is one real decode_*/encode_* call, product state with a reference transducer, run to a fixpoint; violations replayed hook-free through the public API"},
        {"name": "engine-S", "path": "/verif/harness/src/sweep/", "serves_properties": [p for p in sorted(checks) if checks[p][0] != "model_checking"],
         "kind_free_text": "bounded-exhaustive sweeps of stateless functions against reference definitions"},
    ],
    "checks": [c for c in out_checks if c["property_id"] in claimed],
    "notes": "All checks: exit 0 held / exit 1 VIOLATION / exit 2 machinery failure. Known findings: /verif/known_findings.txt. Changes used to evaluate the checks: /verif/seeded/ (139 property-breaking changes, all reported) and /verif/benign/ (40 property-preserving changes, no alarm); see DESIGN.md sections 13 and 14.",
    "not_applicable": [{"property_id": p, "reason": "check not registered yet (being built; will be claimed)"} for p in sorted(checks) if p not in claimed],
}
json.dump(manifest, open(os.path.join(V, "MANIFEST.json"), "w"), indent=1)
print("claimed:", " ".join(c["property_id"] for c in manifest["checks"]))
