#!/usr/bin/env python3
"""Compares the corpus digests of all build configurations with the default build, localises the
first differing case of a differing shard with transcript runs, writes /verif/evidence/C17.json."""
import json, os, subprocess, sys, hashlib, time

tier, t0, t1 = sys.argv[1], float(sys.argv[2]), float(sys.argv[3])
cfgs = sys.argv[4:]
V = os.environ.get("VERIF_ROOT", "/verif")

def load(cfg):
    d = {}
    for line in open(f"{V}/c17/{cfg}/digests.txt"):
        k, v = line.rstrip("\n").split("\t")
        d[k] = v
    return d

def evidence_of(cfg):
    try:
        return json.load(open(f"{V}/c17/{cfg}/evidence/C17CORPUS.json"))
    except Exception:
        return None

def known_findings():
    out = []
    try:
        for line in open(f"{V}/known_findings.txt"):
            line = line.strip()
            if not line.startswith("known:"):
                continue
            prop, frags, rest = "", [], []
            for w in line[len("known:"):].split():
                if w.startswith("property="): prop = w[9:]
                elif w.startswith("match="): frags = w[6:].split(";")
                else: rest.append(w)
            if prop == "C17" and frags:
                out.append((frags, " ".join(rest)))
    except FileNotFoundError:
        pass
    return out

def transcript(cfg, shard):
    out = f"{V}/c17/{cfg}/transcript.txt"
    env = dict(os.environ, VERIF_DIR=f"{V}/c17/{cfg}", VERIF_TRANSCRIPT_SHARD=shard, VERIF_TRANSCRIPT_OUT=out)
    env.pop("VERIF_DIGEST_OUT", None)
    subprocess.run([f"{V}/target-{cfg}/release/vh", "check", "C17CORPUS", "--tier", tier], env=env, stdout=subprocess.DEVNULL, stderr=subprocess.DEVNULL)
    lines = sorted(set(open(out).read().splitlines())) if os.path.exists(out) else []
    try: os.remove(out)
    except OSError: pass
    return lines

base = load("default")
problems = []   # (cfg, shard, default digest, other digest)
for cfg in cfgs:
    d = load(cfg)
    for k in sorted(set(base) | set(d)):
        if cfg != "default" and base.get(k) != d.get(k):
            problems.append((cfg, k, base.get(k), d.get(k)))
    # SIMD-validator path vs built-in scalar path (verification switch), same build
    f, s = d.get("val/utf8_valid_up_to/fast"), d.get("val/utf8_valid_up_to/scalar")
    if f != s:
        problems.append((cfg + ":scalar-switch", "val/utf8_valid_up_to", f, s))

known = known_findings()
os.makedirs(f"{V}/replays", exist_ok=True)
violations, known_hits, machinery = 0, 0, []
seen_sig = set()
localised = {}
for cfg, shard, a, b in problems:
    sig = f"kind=digest-mismatch build={cfg} shard={shard}"
    detail = {"configuration": cfg, "shard": shard, "default_digest": a, "configuration_digest": b}
    # localise the first differing case (once per shard and configuration, at most 3 in total)
    if ":" not in cfg and len(localised) < 3:
        ta, tb = transcript("default", shard), transcript(cfg, shard)
        only_a = sorted(set(ta) - set(tb))[:3]
        only_b = sorted(set(tb) - set(ta))[:3]
        detail["first_cases_only_in_default"] = only_a
        detail["first_cases_only_in_configuration"] = only_b
        localised[(cfg, shard)] = True
        if not only_a and not only_b:
            machinery.append(f"digest of shard {shard} differs between default and {cfg} but the transcripts are equal")
    k = next((t for fr, t in known if all(x in sig for x in fr)), None)
    path = f"{V}/replays/C17-{hashlib.sha1(sig.encode()).hexdigest()[:16]}.json"
    json.dump({"engine": "c17", "property": "C17", "signature": sig, "detail": detail,
               "how_to_replay": f"./check C17 --tier {tier}   (or: VERIF_TRANSCRIPT_SHARD='{shard}' VERIF_TRANSCRIPT_OUT=t.txt VERIF_DIR=/verif/c17/<cfg> /verif/target-<cfg>/release/vh check C17CORPUS --tier {tier} in both configurations and diff the sorted transcripts)"},
              open(path, "w"), indent=1)
    if k is not None:
        known_hits += 1
        line = f"KNOWN-FINDING: property=C17 {k}"
        if line not in seen_sig:
            print(line); seen_sig.add(line)
    else:
        print(f"VIOLATION property=C17 replay={path}")
        print(f"  {sig}: default {a} vs {b}; " + "; ".join((detail.get("first_cases_only_in_default") or [])[:1] + (detail.get("first_cases_only_in_configuration") or [])[:1])[:600])
        violations += 1

ev0 = evidence_of("default") or {}
cov0 = ev0.get("coverage", {})
evals = 0
per_cfg = {}
for cfg in cfgs:
    e = evidence_of(cfg) or {}
    c = e.get("coverage", {})
    evals += int(c.get("evaluations", 0))
    per_cfg[cfg] = {"evaluations": c.get("evaluations"), "states": None, "shards": len(load(cfg)), "reference_violations_seen_in_this_build": c.get("violations_of_other_properties_seen")}
samples = [{"shard": k, "default_digest": v} for k, v in list(base.items())[:3]]
samples.append({"configurations": cfgs})
ev = {
    "property_id": "C17", "tier": tier, "seed": int(os.environ.get("VERIF_SEED", "0") or 0), "level": "exploration",
    "technique": "identical bounded-exhaustive corpus (sweeps + explorer tiers) executed in every build configuration; per-shard digests of logical outputs compared; differing shards localised by transcript diff",
    "coverage": {
        "evaluations": evals,
        "distinct_nontrivial": len(base) * len(cfgs),
        "rule": "corpus = C03 all scalars x all encoders x both sources x both modes, C01 all 1-2 byte streams + structured families x all decoders, C14/C15/C16 quick sweeps (UTF-8 validator with the SIMD path on and off), decoder/encoder explorer tiers with 16/48-unit ASCII runs; one digest per shard (encoding / function / explorer configuration) and build; a case is non-trivial/distinct as counted by the underlying sweeps; distinct_nontrivial here = shards x configurations compared",
        "samples": samples,
        "exhaustive": True,
        "configurations": per_cfg,
        "shards_compared": len(base),
        "mismatching_shards": [{"configuration": c, "shard": s} for c, s, _, _ in problems],
    },
    "assumptions": ["digests are wrapping sums of per-case FNV-1a hashes over an explicit serialisation of (input, return values, written prefix): equal digests are taken as equal behaviour",
                    "nightly toolchain for simd-accel; x86_64 with AVX2 (multiversion picks the AVX2 clones when std is on, the SSE2 bodies without std)"],
    "wall_s": round(time.time() - t0, 3) if t0 > 1e9 else round(t1 - t0, 3),
    "violations": violations, "known_findings_matched": known_hits, "machinery_errors": machinery,
}
os.makedirs(f"{V}/evidence", exist_ok=True)
json.dump(ev, open(f"{V}/evidence/C17.json", "w"), indent=1)
print(f"check C17 tier {tier}: configurations {len(cfgs)} shards {len(base)} evaluations {evals} violations {violations} known {known_hits} wall {ev['wall_s']}s")
for m in machinery:
    print("MACHINERY:", m, file=sys.stderr)
sys.exit(1 if violations else (2 if machinery else 0))
