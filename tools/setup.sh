#!/bin/bash
# Builds the harness in the configurations the quick tier needs (offline, from files on disk).
V="$(cd "$(dirname "$0")/.." && pwd)"
cd "$V/harness" || exit 2
export CARGO_NET_OFFLINE=true
b() { local name=$1; shift; CARGO_TARGET_DIR=$V/target-$name cargo build --release --offline "$@" > $V/.build-target-$name.log 2>&1 || { echo "build $name failed"; tail -20 $V/.build-target-$name.log; return 1; }; }
b default || exit 2
P=""
b fast-legacy --features fast-legacy & P="$P $!"
b less-slow --features less-slow & P="$P $!"
( CARGO_TARGET_DIR=$V/target-simd-std cargo +nightly build --release --offline --features simd-accel,std > $V/.build-target-simd-std.log 2>&1 || { echo "build simd-std failed"; tail -20 $V/.build-target-simd-std.log; exit 1; } ) & P="$P $!"
RC=0
for p in $P; do wait $p || RC=2; done
exit $RC
