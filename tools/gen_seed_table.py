#!/usr/bin/env python3
"""Fills the seed table of DESIGN.md section 13 from /verif/seeded/*/meta.json."""
import json, glob, os, re
V = os.path.dirname(os.path.dirname(os.path.abspath(__file__)))
rows = []
for d in sorted(glob.glob(f"{V}/seeded/*/")):
    sid = os.path.basename(d.rstrip("/"))
    m = json.load(open(d + "meta.json"))
    readme = open(d + "README.md").read() if os.path.exists(d + "README.md") else ""
    # first sentence-ish summary
    lines = [l.strip("# *-").strip() for l in readme.splitlines() if l.strip() and not l.startswith("```")]
    summ = ""
    for l in lines:
        if len(l) > 25:
            summ = l
            break
    summ = re.sub(r"\s+", " ", summ)[:150]
    rows.append((sid, m.get("property", ""), summ, " ".join(m.get("caught_by", [])) or "-", " ".join(m.get("not_caught_by", [])) or "-"))
t = ["| seed | property | change (first line of its README) | quick checks that report it | tried, silent |", "|---|---|---|---|---|"]
for r in rows:
    t.append("| %s | %s | %s | %s | %s |" % r)
own = sum(1 for r in rows if r[1] and r[1] in r[3].split())
t.append("")
t.append(f"{len(rows)} seeds; {sum(1 for r in rows if r[3] != '-')} reported by at least one quick check; {own} reported by the quick check of the property they were written against.")
p = f"{V}/DESIGN.md"
s = open(p).read()
a = s.index("<!-- SEED TABLE BEGIN -->") if "<!-- SEED TABLE BEGIN -->" in s else None
block = "<!-- SEED TABLE BEGIN -->\n" + "\n".join(t) + "\n<!-- SEED TABLE END -->"
if a is None:
    s = s.replace("SEED_TABLE_PLACEHOLDER", block)
else:
    b = s.index("<!-- SEED TABLE END -->") + len("<!-- SEED TABLE END -->")
    s = s[:a] + block + s[b:]
open(p, "w").write(s)
print("\n".join(t[-3:]))
