#!/bin/bash
for P in "$@"; do
  S=$(date +%s)
  OUT=$(VERIF_MAX_RSS_GB=28 ./check $P --tier thorough 2>&1); RC=$?
  E=$(date +%s)
  echo "$P exit=$RC $((E-S))s $(echo "$OUT" | grep -c '^VIOLATION') violations $(echo "$OUT" | grep -c '^KNOWN-FINDING') known | $(echo "$OUT" | grep '^check' | tail -2 | tr '\n' ' ' | cut -c1-330)"
  echo "$OUT" | grep -E "^VIOLATION|^MACHINERY|^  " | head -6 | cut -c1-300
done
