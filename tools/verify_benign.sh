#!/bin/bash
# verify_benign.sh <id> : confirms in a scratch worktree that /verif/benign/<id>/patch.diff
# applies, the repository's own suite passes with it and its demonstration passes with it.
set -u
ID="$1"; SRC=/verif/benign/$ID
WT=/tmp/vseed_wt
export CARGO_NET_OFFLINE=true
if [ ! -d "$WT" ]; then git -C /repo worktree add --detach "$WT" HEAD >/dev/null 2>&1 || exit 3; fi
cd "$WT" && git checkout -q --detach "$(git -C /repo rev-parse HEAD)" && git checkout -q -- . && rm -f tests/seed_demo.rs tests/benign_demo.rs
if ! git apply --check "$SRC/patch.diff" 2>/dev/null; then echo "RESULT $ID: patch does not apply"; exit 1; fi
git apply "$SRC/patch.diff"
SUITE=$(cargo test --offline 2>&1 | grep -E "^test result" | awk '{p+=$4; f+=$6} END {print p" passed "f" failed"}')
cp "$SRC/demo.rs" tests/benign_demo.rs
DEMO_WITH=$(cargo test --offline --test benign_demo 2>&1 | grep -E "^test result" | head -1)
git checkout -q -- .
DEMO_WITHOUT=$(cargo test --offline --test benign_demo 2>&1 | grep -E "^test result" | head -1)
rm -f tests/benign_demo.rs
echo "RESULT $ID: suite with change: $SUITE | demo with change: $DEMO_WITH | demo without: $DEMO_WITHOUT"
python3 - "$ID" "$SUITE" "$DEMO_WITH" "$DEMO_WITHOUT" <<'PY'
import json,sys,os
id,suite,dw,dwo=sys.argv[1:5]
p=f'/verif/benign/{id}/meta.json'
meta=json.load(open(p)) if os.path.exists(p) else {}
meta.update({"id":id,"written_for":id.split('-')[0],"origin":"independent sub-agent given only the property text and a scratch worktree; asked for a behaviour-changing but property-preserving change",
"verified":{"suite_with_change":suite,"demo_with_change":dw,"demo_without_change (per-call difference tests fail there by design)":dwo}})
json.dump(meta,open(p,'w'),indent=1)
PY
