#!/bin/bash
# verify_seed.sh <dir with patch.diff demo.rs README.md> <seed id> <property>
# Confirms in a scratch worktree (outside /repo and /verif) that the change compiles, the
# repository's own suite still passes with it, the demonstration fails with it and passes
# without it; then files it under /verif/seeded/<seed id>/.
set -u
SRC="$1"; ID="$2"; PROP="$3"
WT=/tmp/vseed_wt
export CARGO_NET_OFFLINE=true
if [ ! -d "$WT" ]; then git -C /repo worktree add --detach "$WT" HEAD >/dev/null 2>&1 || exit 3; fi
cd "$WT" && git checkout -q --detach "$(git -C /repo rev-parse HEAD)" && git checkout -q -- . && rm -f tests/seed_demo.rs
if ! git apply --check "$SRC/patch.diff" 2>/dev/null; then echo "RESULT $ID: patch does not apply"; exit 1; fi
git apply "$SRC/patch.diff"
# optional first line of the demo: // cargo-args: [+nightly] --features <list>
CARGS=$(head -1 "$SRC/demo.rs" | sed -n 's|^// cargo-args: *||p')
TOOL=""; case "$CARGS" in +nightly*) TOOL="+nightly"; CARGS="${CARGS#+nightly}";; esac
if [ -n "$CARGS$TOOL" ]; then
  SUITE_CFG=$(cargo $TOOL test --offline $CARGS 2>&1 | grep -E "^test result" | awk '{p+=$4; f+=$6} END {print p" passed "f" failed"}')
  echo "suite with change in configuration [$TOOL $CARGS]: $SUITE_CFG"
  case "$SUITE_CFG" in *" 0 failed") ;; *) echo "REJECTED $ID (suite fails in target configuration)"; git checkout -q -- .; exit 1;; esac
fi
SUITE=$(cargo test --offline 2>&1 | grep -E "^test result" | awk '{p+=$4; f+=$6} END {print p" passed "f" failed"}')
cp "$SRC/demo.rs" tests/seed_demo.rs
DEMO_OUT=$(cargo $TOOL test --offline $CARGS --test seed_demo 2>&1); DEMO_RC=$?
DEMO_WITH=$(echo "$DEMO_OUT" | grep -E "^test result" | head -1)
if [ -z "$DEMO_WITH" ] && [ $DEMO_RC -ne 0 ]; then DEMO_WITH="FAILED (test process died: $(echo "$DEMO_OUT" | grep -E "signal|SIGABRT|SIGSEGV|unsafe precondition" | head -1 | cut -c1-160))"; fi
git checkout -q -- . 
DEMO_WITHOUT=$(cargo $TOOL test --offline $CARGS --test seed_demo 2>&1 | grep -E "^test result" | head -1)
rm -f tests/seed_demo.rs
echo "RESULT $ID: suite with change: $SUITE | demo with change: $DEMO_WITH | demo without: $DEMO_WITHOUT"
OK=1
case "$SUITE" in "169 passed 0 failed") ;; *) OK=0;; esac
case "$DEMO_WITH" in *FAILED*) ;; *) OK=0;; esac
case "$DEMO_WITHOUT" in *"ok."*) ;; *) OK=0;; esac
if [ $OK -eq 1 ]; then
  mkdir -p /verif/seeded/$ID
  cp "$SRC/patch.diff" "$SRC/demo.rs" /verif/seeded/$ID/
  cp "$SRC/README.md" /verif/seeded/$ID/README.md 2>/dev/null
  python3 - "$ID" "$PROP" "$SUITE" "$DEMO_WITH" "$DEMO_WITHOUT" <<'PY'
import json,sys,re
id,prop,suite,dw,dwo=sys.argv[1:6]
readme=open(f'/verif/seeded/{id}/README.md').read() if True else ''
meta={"seed":id,"property":prop,"origin":"independent sub-agent given only the property text and a scratch worktree","needs_to_manifest":"see README.md",
"verified":{"repo_commit":open('/repo/.git/HEAD').read().strip(),"suite_with_change":suite+" (145 unit + 8 + 13 integration + 3 doc tests)","demo_with_change":dw,"demo_without_change":dwo,
"commands":["git apply patch.diff","cargo test --offline","cp demo.rs tests/seed_demo.rs && cargo test --offline --test seed_demo","git checkout -- . && cargo test --offline --test seed_demo"]},
"caught_by":[]}
json.dump(meta,open(f'/verif/seeded/{id}/meta.json','w'),indent=1)
PY
  echo "KEPT $ID"
else
  echo "REJECTED $ID"
fi
