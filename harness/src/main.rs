mod drive;
mod imp;
mod json;
mod spec;

use drive::*;
use imp::*;
use spec::dec::BomMode;
use spec::Tok;

fn main() {
    install_quiet_panic_hook();
    let args: Vec<String> = std::env::args().collect();
    match args.get(1).map(|s| s.as_str()) {
        Some("refcheck") => refcheck(),
        _ => {
            eprintln!("usage: vh <command>");
            std::process::exit(2);
        }
    }
}

fn refcheck() {
    let mut diffs = 0usize;
    let mut n = 0usize;
    for e in spec::all() {
        for len in 1..=2usize {
            let total = 256usize.pow(len as u32);
            for v in 0..total {
                let bytes: Vec<u8> = if len == 1 { vec![v as u8] } else { vec![(v >> 8) as u8, v as u8] };
                let (rt, _) = spec::ref_decode_all(&e, BomMode::Off, &bytes);
                let run = decode_stream_single(&e, BomMode::Off, Sink::Utf8, false, &bytes).unwrap();
                n += 1;
                if run.toks != rt {
                    diffs += 1;
                    if diffs < 40 {
                        println!("DEC {} {} impl: {} | ref: {}", e.name, hex(&bytes), toks_short(&run.toks), toks_short(&rt));
                    }
                }
            }
        }
    }
    println!("decode cases {} diffs {}", n, diffs);
    let mut ediffs = 0usize;
    let mut en = 0usize;
    for e in spec::all() {
        for c in 0..0x110000u32 {
            if (0xD800..0xE000).contains(&c) {
                continue;
            }
            let rt = ref_encode_all(&e, &[c], true);
            let s = units_to_utf8(&[c]);
            let run = encode_chunks_ample(&e, Source::Utf8, false, &[&s], &[], true).unwrap();
            en += 1;
            if run.toks != rt {
                ediffs += 1;
                if ediffs < 40 {
                    println!("ENC {} U+{:04X} impl: {} | ref: {}", e.name, c, etoks_short(&run.toks), etoks_short(&rt));
                }
            }
        }
    }
    println!("encode cases {} diffs {}", en, ediffs);
    let _ = Tok::Char(0);
}
