mod adequacy;
mod alphabet;
mod checks;
mod drive;
mod imp;
mod json;
mod spec;
mod sweep;
mod x;
mod xdec;
mod xenc;

use checks::*;
use imp::*;
use json::J;
use std::time::Instant;
use x::*;

fn arg<'a>(args: &'a [String], name: &str) -> Option<&'a str> {
    args.iter().position(|a| a == name).and_then(|i| args.get(i + 1)).map(|s| s.as_str())
}

fn verif_dir() -> String {
    std::env::var("VERIF_DIR").unwrap_or_else(|_| "/verif".to_string())
}

fn main() {
    install_quiet_panic_hook();
    let args: Vec<String> = std::env::args().collect();
    match args.get(1).map(|s| s.as_str()) {
        Some("sizes") => print_sizes(),
        Some("adequacy") => {
            let mut bad = 0;
            for e in spec::all() {
                let syms = alphabet::dec_syms(&e, false, true, &[]);
                let (missing, total) = adequacy::check(&e, &syms);
                println!("{}: {} shapes with the full byte alphabet, {} missing with the class alphabet ({} symbols)", e.name, total, missing.len(), syms.len());
                for m in missing.iter().take(30) {
                    println!("    missing: {}", m);
                }
                bad += missing.len();
            }
            std::process::exit(if bad > 0 { 2 } else { 0 });
        }
        Some("xdec") => cmd_xdec(&args),
        Some("check") => {
            let r = std::panic::catch_unwind(|| cmd_check(&args));
            if r.is_err() {
                eprintln!("MACHINERY: the harness itself panicked: {}", LAST_PANIC.lock().map(|g| g.clone()).unwrap_or_default());
                std::process::exit(2);
            }
        }
        Some("replay") => {
            let text = std::fs::read_to_string(&args[2]).expect("read replay");
            let j = json::parse(&text).expect("json");
            match run_replay(&j) {
                Ok(r) => {
                    println!("{}", r.render());
                    // verdict: does the violating (last) call still behave as recorded?
                    let v = Violation { prop: String::new(), kind: String::new(), msg: String::new(), replay: j.clone() };
                    if j.get("expect_last").is_some() && j.get("expect_replay_output").is_none() {
                        match validate_replay(&v) {
                            Ok(()) => {
                                println!("reproduced: true (the last call behaves as recorded when the violation was reported)");
                                std::process::exit(1);
                            }
                            Err(m) => println!("reproduced: false ({})", m),
                        }
                    } else if let Some(exp) = j.get("expect_replay_output") {
                        if exp.render() == r.render() {
                            println!("reproduced: true (every call of the replay behaves as it did when the violation was reported)");
                            std::process::exit(1);
                        } else {
                            println!("reproduced: false (the behaviour recorded with the violation was {})", exp.render().replace('\n', " "));
                        }
                    } else {
                        println!("reproduced: not decided by the replay (no expectation recorded; compare the observation above with detail.message)");
                    }
                }
                Err(m) => {
                    eprintln!("replay failed: {}", m);
                    std::process::exit(2);
                }
            }
        }
        _ => {
            eprintln!("usage: vh check <property> --tier quick|thorough | vh replay <file> | vh xdec ...");
            std::process::exit(2);
        }
    }
}

fn run_replay(j: &J) -> Result<J, String> {
    match j.get("engine").and_then(|e| e.as_str()) {
        Some("xdec") => xdec::replay(j),
        Some("xenc") => xenc::replay(j),
        Some("sweep") => match j.get("function").and_then(|f| f.as_str()) {
            Some("for_label") => sweep::c13::replay(j),
            Some(f) if f.ends_with("_up_to") => sweep::c14::replay(j),
            _ => sweep::replay::replay(j),
        },
        Some(e) => Err(format!("unknown engine {}", e)),
        None => Err("no engine".into()),
    }
}

/// Hook-free double replay of a violation; Err = machinery problem.
fn validate_replay(v: &Violation) -> Result<(), String> {
    let r = run_replay(&v.replay)?;
    if let Some(J::Str(expect)) = v.replay.get("expect_last") {
        let canon = r.get("canon").and_then(|c| c.as_arr()).cloned().unwrap_or_default();
        let ncalls = v.replay.get("calls").and_then(|c| c.as_arr()).map(|a| a.len()).unwrap_or(0);
        if expect == "panic" {
            let p = r.get("panic").and_then(|p| p.get("call")).and_then(|c| c.as_i64());
            if p != Some(ncalls as i64 - 1) {
                return Err(format!("explorer saw a panic in call {}, the replay through the public API did not ({:?})", ncalls - 1, p));
            }
        } else {
            let got = canon.get(ncalls.wrapping_sub(1)).and_then(|c| c.as_str()).unwrap_or("<missing>");
            if got != expect {
                return Err(format!("explorer observed [{}], replay through the public API observed [{}]", expect, got));
            }
        }
    }
    Ok(())
}

struct Known {
    prop: String,
    frags: Vec<String>,
    text: String,
}

fn load_known() -> Vec<Known> {
    let p = std::env::var("VERIF_KNOWN").unwrap_or_else(|_| format!("{}/known_findings.txt", verif_dir()));
    let mut v = vec![];
    if let Ok(t) = std::fs::read_to_string(&p) {
        for line in t.lines() {
            let line = line.trim();
            if !line.starts_with("known:") {
                continue; // "fixed:" lines and comments suppress nothing
            }
            let mut prop = String::new();
            let mut frags = vec![];
            let mut rest = vec![];
            for w in line["known:".len()..].split_whitespace() {
                if let Some(x) = w.strip_prefix("property=") {
                    prop = x.to_string();
                } else if let Some(x) = w.strip_prefix("match=") {
                    frags = x.split(';').map(|s| s.to_string()).collect();
                } else {
                    rest.push(w);
                }
            }
            if !prop.is_empty() && !frags.is_empty() {
                v.push(Known { prop, frags, text: rest.join(" ") });
            }
        }
    }
    v
}

fn signature(v: &Violation) -> String {
    let g = |k: &str| v.replay.get(k).map(|x| x.render().trim().trim_matches('"').to_string()).unwrap_or_default();
    format!("kind={} engine={} encoding={} sink={} repl={} bom={} build={} fn={}", v.kind, g("engine"), g("encoding"), g("sink"), g("repl"), g("bom"), build_name(), g("function"))
}

pub fn build_name() -> &'static str {
    if cfg!(feature = "simd-accel") {
        "simd-accel"
    } else if cfg!(feature = "fast-legacy") {
        "fast-legacy"
    } else if cfg!(feature = "less-slow") {
        "less-slow"
    } else {
        "default"
    }
}

fn fnv(s: &str) -> u64 {
    let mut h: u64 = 0xcbf29ce484222325;
    for b in s.bytes() {
        h ^= b as u64;
        h = h.wrapping_mul(0x100000001b3);
    }
    h
}

fn cmd_check(args: &[String]) {
    let prop = args.get(2).expect("property id").clone();
    let tier = match arg(args, "--tier").unwrap_or("quick") {
        "quick" => Tier::Quick,
        "thorough" => Tier::Thorough,
        t => panic!("bad tier {}", t),
    };
    let seed: i64 = std::env::var("VERIF_SEED").ok().and_then(|s| s.parse().ok()).unwrap_or(0);
    let t0 = Instant::now();
    let out = run_check(&prop, tier);
    let wall = t0.elapsed().as_secs_f64();
    // ---- violations: own property only; MACHINERY separately
    let own: Vec<&Violation> = out.vios.list.iter().filter(|v| v.prop == prop).collect();
    let machinery: Vec<&Violation> = out.vios.list.iter().filter(|v| v.prop == "MACHINERY").collect();
    let known = load_known();
    let dir = verif_dir();
    let _ = std::fs::create_dir_all(format!("{}/replays", dir));
    let _ = std::fs::create_dir_all(format!("{}/evidence", dir));
    let mut exit = 0;
    let mut n_violation_lines = 0usize;
    let mut n_known = 0usize;
    let mut printed_known: std::collections::HashSet<String> = std::collections::HashSet::new();
    let mut machinery_msgs: Vec<String> = machinery.iter().map(|v| format!("{}: {}", v.kind, v.msg)).collect();
    for v in &own {
        let sig = signature(v);
        let path = format!("{}/replays/{}-{:016x}.json", dir, prop, fnv(&v.replay.render()));
        let mut rj = v.replay.clone();
        rj.put("property", J::s(&prop));
        rj.put("kind", J::s(&v.kind));
        rj.put("signature", J::s(&sig));
        // replays without a per-call expectation carry what the replay shows now (on the tree
        // that violates), so that `--replay` can later say whether the behaviour is still there
        if v.replay.get("engine").is_some() {
            if let Ok(r) = run_replay(&v.replay) {
                rj.put("expect_replay_output", r);
            }
        }
        let _ = std::fs::write(&path, rj.render());
        if v.replay.get("engine").is_some() && v.replay.get("calls").is_some() {
            if let Err(m) = validate_replay(v) {
                machinery_msgs.push(format!("replay of {} diverged: {}", path, m));
                continue;
            }
        }
        if let Some(k) = known.iter().find(|k| k.prop == prop && k.frags.iter().all(|f| sig.contains(f.as_str()))) {
            n_known += 1;
            let line = format!("KNOWN-FINDING: property={} {}", prop, k.text);
            if printed_known.insert(line.clone()) {
                println!("{}", line);
            }
        } else {
            println!("VIOLATION property={} replay={}", prop, path);
            println!("  {} [{}]: {}", v.kind, sig, v.msg);
            n_violation_lines += 1;
            exit = 1;
        }
    }
    if !machinery_msgs.is_empty() {
        for m in &machinery_msgs {
            eprintln!("MACHINERY: {}", m);
        }
        if exit == 0 {
            exit = 2;
        }
    }
    // ---- evidence
    let s = &out.stats;
    let mut cov = J::obj();
    if out.level == "model_checking" {
        cov.put("states", J::Int(s.states as i64));
        cov.put("transitions", J::Int(s.transitions as i64));
        cov.put("traces_validated_against_impl", J::Int(s.transitions as i64));
        cov.put("explanation", J::s("every transition is one execution of the real converter through its public API (cloned from the explored state); the reference transducer runs in lock-step and is part of the state key"));
        cov.put("finished_states", J::Int(s.finished_states as i64));
        cov.put("max_depth", J::Int(s.max_depth as i64));
        cov.put("configurations", J::Int(s.configs as i64));
    }
    cov.put("evaluations", J::Int((s.evaluations + s.transitions) as i64));
    cov.put("distinct_nontrivial", J::Int((s.nontrivial + s.states) as i64));
    cov.put("rule", J::s(&out.rule));
    cov.put("exhaustive", J::Bool(s.exhaustive));
    let mut samples = s.samples.clone();
    if samples.is_empty() {
        samples.push(J::s("(no sample recorded)"));
    }
    cov.put("samples", J::Arr(samples));
    let mut classes = J::obj();
    for (k, v) in &s.classes {
        classes.put(k, J::Int(*v as i64));
    }
    cov.put("distinct_outcome_classes", J::Int(s.classes.len() as i64));
    cov.put("outcome_classes", classes);
    cov.put("caps_hit", J::Arr(s.caps_hit.iter().map(|c| J::s(c)).collect()));
    cov.put("notes", J::Arr(s.notes.iter().map(|c| J::s(c)).collect()));
    let mut sup = J::obj();
    for (k, v) in &s.suppressed {
        sup.put(k, J::Int(*v as i64));
    }
    cov.put("other_property_observations_not_reported_here", sup);
    let mut other = J::obj();
    for ((p, k), c) in &out.vios.counts {
        if *p != prop {
            other.put(&format!("{}:{}", p, k), J::Int(*c as i64));
        }
    }
    cov.put("violations_of_other_properties_seen", other);
    cov.put("build", J::s(build_name()));
    // results of the same check in other build configurations (run by ./check before this one)
    if let Ok(extra) = std::env::var("VERIF_EXTRA_EVIDENCE") {
        let mut arr = vec![];
        for path in extra.split(':').filter(|p| !p.is_empty()) {
            if let Ok(t) = std::fs::read_to_string(path) {
                if let Ok(j) = json::parse(&t) {
                    let c = j.get("coverage").cloned().unwrap_or(J::obj());
                    arr.push(
                        J::obj()
                            .set("build", c.get("build").cloned().unwrap_or(J::Null))
                            .set("evaluations", c.get("evaluations").cloned().unwrap_or(J::Null))
                            .set("states", c.get("states").cloned().unwrap_or(J::Null))
                            .set("transitions", c.get("transitions").cloned().unwrap_or(J::Null))
                            .set("violations", j.get("violations").cloned().unwrap_or(J::Null))
                            .set("known_findings_matched", j.get("known_findings_matched").cloned().unwrap_or(J::Null)),
                    );
                }
            }
        }
        cov.put("same_check_in_other_builds", J::Arr(arr));
    }
    {
        let mut dg = J::obj();
        for (k, v) in &s.digests {
            dg.put(k, J::s(&format!("{:016x}", v)));
        }
        cov.put("digests", dg);
        if let Ok(path) = std::env::var("VERIF_DIGEST_OUT") {
            let mut t = String::new();
            for (k, v) in &s.digests {
                t.push_str(&format!("{}\t{:016x}\n", k, v));
            }
            let _ = std::fs::write(path, t);
        }
    }
    let ev = J::obj()
        .set("property_id", J::s(&prop))
        .set("tier", J::s(if tier == Tier::Quick { "quick" } else { "thorough" }))
        .set("seed", J::Int(seed))
        .set("level", J::s(out.level))
        .set("technique", J::s(&out.technique))
        .set("coverage", cov)
        .set("assumptions", J::Arr(out.assumptions.iter().map(|a| J::s(a)).collect()))
        .set("wall_s", J::Num(wall))
        .set("violations", J::Int(n_violation_lines as i64))
        .set("known_findings_matched", J::Int(n_known as i64))
        .set("machinery_errors", J::Arr(machinery_msgs.iter().map(|m| J::s(m)).collect()));
    let evp = format!("{}/evidence/{}.json", dir, prop);
    std::fs::write(&evp, ev.render()).expect("write evidence");
    println!(
        "check {} tier {:?}: level {} states {} transitions {} evaluations {} violations {} known {} wall {:.1}s exhaustive {}",
        prop, tier, out.level, s.states, s.transitions, s.evaluations, n_violation_lines, n_known, wall, s.exhaustive
    );
    std::process::exit(exit);
}

fn run_check(prop: &str, tier: Tier) -> CheckOut {
    let common_assumptions = vec![
        "the reference transducers transcribe the Encoding Standard from memory; they agree with the unchanged crate on all 1-2 byte streams and all scalar values, and are keyed to frozen index data in /verif/spec".to_string(),
        "x86_64 little-endian only; Clone of the converter (verification hook) is a faithful copy (every violation is re-established through the public API without it)".to_string(),
    ];
    let has_dec = matches!(prop, "C01" | "C02" | "C05" | "C06" | "C07" | "C08" | "C09" | "C10" | "C18" | "C19");
    let has_enc = matches!(prop, "C03" | "C04" | "C06" | "C07" | "C08" | "C09" | "C12" | "C18");
    let only = std::env::var("VERIF_ONLY").unwrap_or_default(); // "dec" / "enc": development aid
    let sweep_assumptions = |extra: &str| -> Vec<String> {
        vec![
            "x86_64 little-endian only".to_string(),
            extra.to_string(),
        ]
    };
    match prop {
        "C17CORPUS" => {
            // the deterministic corpus whose digests are compared across build configurations
            let mut stats = Stats::new();
            let mut vios = VioSet::default();
            let mut add = |x: (Stats, VioSet)| {
                stats.merge(&x.0);
                vios.merge(x.1);
            };
            // transcript mode (localisation of one differing shard): run only the part of the
            // corpus that feeds that shard
            let only_shard = std::env::var("VERIF_TRANSCRIPT_SHARD").unwrap_or_default();
            let wants = |prefix: &str| only_shard.is_empty() || only_shard.starts_with(prefix);
            if wants("enc/") {
                add(sweep::c03::run(tier));
            }
            if wants("dec/") {
                add(sweep::c01::run(Tier::Quick));
            }
            if wants("val/") {
                add(sweep::c14::run(Tier::Quick));
            }
            if wants("mem/") {
                add(sweep::c15::run(tier, "C15"));
                add(sweep::c15::run(Tier::Quick, "C05"));
            }
            if wants("cls/") {
                add(sweep::c16::run(Tier::Quick));
            }
            let (dplan, eplan) = c17_plans(tier);
            if wants("xdec/") {
                let dplan: Vec<_> = dplan.into_iter().filter(|it| only_shard.is_empty() || only_shard.starts_with(&format!("xdec/{}/", it.enc))).collect();
                let mut dor = xdec::Oracles::default();
                dor.conform = true;
                add(run_dec_plan(dplan, &dor, "C02", "C01"));
            }
            if wants("xenc/") {
                let eplan: Vec<_> = eplan.into_iter().filter(|it| only_shard.is_empty() || only_shard.starts_with(&format!("xenc/{}/", it.enc))).collect();
                let mut eor = xenc::EOracles::default();
                eor.conform = true;
                add(run_enc_plan(eplan, &eor, "C04", "C03"));
            }
            return CheckOut { level: "exploration", stats, vios, rule: "C17 corpus".into(), assumptions: vec![], technique: "corpus digests".into() };
        }
        "C13" => {
            let (stats, vios) = sweep::c13::run(tier);
            return CheckOut { level: "exploration", stats, vios, rule: "bounded-exhaustive enumeration of label-like byte strings (all strings of length <= 2/3, every 1-edit neighbour, case mask, padding and lengthening of all 228 labels, all short strings over the label alphabet); non-trivial = resolves to an encoding".into(), assumptions: sweep_assumptions("the frozen 228-label table in /verif/spec/labels.txt is the Standard's"), technique: "bounded-exhaustive enumeration against a reference implementation of get-an-encoding".into() };
        }
        "C14" => {
            let (stats, vios) = sweep::c14::run(tier);
            return CheckOut { level: "exploration", stats, vios, rule: "every core sequence over a 28-byte UTF-8 class alphabet embedded after every prefix length/kind and before suffixes, at several alignments, with the SIMD validator path enabled and disabled; every position of planted defects for the ASCII/UTF-16/Latin1 validators; non-trivial = the input is not entirely valid".into(), assumptions: sweep_assumptions("std::str::from_utf8 is the definition of UTF-8 validity"), technique: "bounded-exhaustive enumeration against std validation".into() };
        }
        "C15" => {
            let (stats, vios) = sweep::c15::run(tier, "C15");
            return CheckOut { level: "exploration", stats, vios, rule: "every public mem conversion x sources of every length built from a filler class with one planted unit of every class at every position x destination lengths 0..=sufficient+1 (partial functions) / exact and one-short (asserting functions)".into(), assumptions: sweep_assumptions("std lossy conversions define the expected results; partial = longest prefix of whole characters that fits (encodeInto)"), technique: "bounded-exhaustive enumeration against std conversions".into() };
        }
        "C16" => {
            let (stats, vios) = sweep::c16::run(tier);
            return CheckOut { level: "exploration", stats, vios, rule: "every scalar value and every UTF-16 code unit alone and between fillers; boundary scalars, surrogates and invalid UTF-8 planted at every position of buffers of every length over three fillers; non-trivial = not all-ASCII".into(), assumptions: sweep_assumptions("the documented right-to-left block list restated as literal ranges is the definition"), technique: "bounded-exhaustive enumeration against per-character definitions".into() };
        }
        "C20" => {
            let (stats, vios) = sweep::c20::run(tier);
            return CheckOut { level: "exploration", stats, vios, rule: "40 encodings x all byte strings of length <= 2 (+ ISO-2022-JP escapes) decoded and all 1,112,064 scalar values encoded by the same build; predicates compared with the behaviour observed".into(), assumptions: sweep_assumptions("behaviour is observed on the same build as the predicates"), technique: "exhaustive enumeration of the finite separating space".into() };
        }
        "C11" => {
            let (stats, vios) = sweep::c11::run(tier);
            return CheckOut { level: "exploration", stats, vios, rule: "one-shot decode*/encode vs the streaming driver on: all strings of length <= 2, BOM-ish prefixes x per-encoding tails, ASCII runs of every length 0..130 (and around 256/1024/4096) + tail + suffix, error-dense inputs, encode run shapes; non-trivial = input contains an error".into(), assumptions: sweep_assumptions("the streaming converters are the reference for the one-shot API (their own conformance is C01-C04)"), technique: "bounded-exhaustive enumeration, one-shot API against streaming API".into() };
        }
        _ => {}
    }
    match prop {
        _ if has_dec || has_enc => {
            let mut stats = Stats::new();
            let mut vios = VioSet::default();
            if prop == "C02" && only != "enc" && only != "sweep" {
                // alphabet adequacy on the reference model (DESIGN 3.4); inadequate = machinery error
                let encs: Vec<spec::Enc> = spec::all().into_iter().filter(|e| tier == Tier::Thorough || !matches!(e.kind, spec::Kind::Gb18030 | spec::Kind::Gbk)).collect();
                let res = par_map(&encs, 16, |e| {
                    let syms = alphabet::dec_syms(e, false, true, &[]);
                    let (missing, total) = adequacy::check(e, &syms);
                    (e.name, syms.len(), total, missing)
                });
                let mut shapes = 0;
                for (name, nsyms, total, missing) in res {
                    shapes += total;
                    if !missing.is_empty() {
                        vios.add(Violation { prop: "MACHINERY".into(), kind: "alphabet-inadequate".into(), msg: format!("{}: the class alphabet ({} symbols) misses {} of {} transition shapes of the reference decoder, e.g. {}", name, nsyms, missing.len(), total, missing[0]), replay: J::obj() });
                    }
                }
                stats.notes.push(format!("alphabet adequacy: the class alphabets of {} encodings produce all {} transition shapes that the full 256-byte alphabet produces on the reference decoders", encs.len(), shapes));
            }
            if has_dec && only != "enc" && only != "sweep" {
                let or = dec_oracles(prop, tier);
                let plan = dec_plan(prop, tier);
                let (tag_chunk, tag_single): (&'static str, &'static str) = match prop {
                    "C10" => ("C10", "C10"),
                    _ => ("C02", "C01"),
                };
                let (s, v) = run_dec_plan(plan, &or, tag_chunk, tag_single);
                stats.merge(&s);
                vios.merge(v);
            }
            if prop == "C01" && only != "x" {
                let (s, v) = sweep::c01::run(tier);
                stats.merge(&s);
                vios.merge(v);
            }
            if prop == "C10" && only != "x" {
                let (s, v) = sweep::c10::run();
                stats.merge(&s);
                vios.merge(v);
            }
            if prop == "C03" && only != "x" {
                let (s, v) = sweep::c03::run(tier);
                stats.merge(&s);
                vios.merge(v);
            }
            if prop == "C05" && only != "x" {
                let (s, v) = sweep::c15::run(tier, "C05");
                stats.merge(&s);
                vios.merge(v);
                let (s, v) = sweep::c05::run(tier);
                stats.merge(&s);
                vios.merge(v);
            }
            if prop == "C06" && only != "x" {
                let (s, v) = sweep::c15::run(tier, "C06");
                stats.merge(&s);
                vios.merge(v);
                // the validator and classifier sweeps also run here: panics and out-of-range
                // results of functions without preconditions are charged to C06
                let (s, v) = sweep::c14::run(Tier::Quick);
                stats.merge(&s);
                vios.merge(v);
                let (s, v) = sweep::c16::run(Tier::Quick);
                stats.merge(&s);
                vios.merge(v);
            }
            if prop == "C09" && only != "x" {
                let (s, v) = sweep::c09::run(tier);
                stats.merge(&s);
                vios.merge(v);
            }
            if prop == "C12" && only != "x" {
                let (s, v) = sweep::c12::run(tier);
                stats.merge(&s);
                vios.merge(v);
            }
            if prop == "C18" && only != "x" {
                let (s, v) = sweep::c15::run(tier, "C18");
                stats.merge(&s);
                vios.merge(v);
            }
            if has_enc && only != "dec" && only != "sweep" {
                let or = enc_oracles(prop);
                let plan = enc_plan(prop, tier);
                let (s, v) = run_enc_plan(plan, &or, "C04", "C03");
                stats.merge(&s);
                vios.merge(v);
            }
            CheckOut {
                level: "model_checking",
                stats,
                vios,
                rule: "explicit-state BFS to a fixpoint over (real converter state, reference state, output debt, unconsumed remainder); actions = every chunk of <= k symbols of the class alphabet x last in {false,true} x capacities around every threshold; a state is non-trivial/distinct by its full key".to_string(),
                assumptions: common_assumptions,
                technique: "explicit-state model checking of the real converter (BFS to fixpoint, reference transducer in lock-step)".to_string(),
            }
        }
        _ => {
            eprintln!("no check for {}", prop);
            std::process::exit(2);
        }
    }
}

fn cmd_xdec(args: &[String]) {
    let e = spec::enc(arg(args, "--enc").unwrap_or("Big5"));
    let sink = Sink::parse(arg(args, "--sink").unwrap_or("utf8"));
    let repl = arg(args, "--repl").unwrap_or("0") == "1";
    let bom = xdec::bom_parse(arg(args, "--bom").unwrap_or("off"));
    let k: usize = arg(args, "--k").unwrap_or("2").parse().unwrap();
    let words = arg(args, "--words").unwrap_or("1") == "1";
    let full = arg(args, "--full").unwrap_or("0") == "1";
    let runs: Vec<usize> = arg(args, "--runs").unwrap_or("").split(',').filter(|s| !s.is_empty()).map(|s| s.parse().unwrap()).collect();
    let threads: usize = arg(args, "--threads").unwrap_or("16").parse().unwrap();
    let ors = arg(args, "--oracles").unwrap_or("conform,contract,wellformed,query,progress");
    let mut or = xdec::Oracles::default();
    for o in ors.split(',') {
        match o {
            "conform" => or.conform = true,
            "contract" => or.contract = true,
            "wellformed" => or.wellformed = true,
            "query" => or.query = true,
            "progress" => or.progress = true,
            "graph" => or.graph = true,
            "prefill3" => or.prefill3 = true,
            "twin" => or.twin = true,
            "flags" => or.flags = true,
            "encoding_used" => or.encoding_used = true,
            "latin1" => or.latin1 = Some(40),
            "adversarial_str" => or.adversarial_str = true,
            "reuse_finished" => or.reuse_finished = true,
            "submin" => or.submin = true,
            "aligns" => or.aligns = true,
            "ladder" => or.ladder = true,
            "" => {}
            _ => panic!("unknown oracle {}", o),
        }
    }
    let syms = if full { alphabet::full_bytes() } else { alphabet::dec_syms(&e, false, words, &runs) };
    let syms_undecided = if bom != spec::dec::BomMode::Off { alphabet::bom_syms(words) } else { vec![] };
    let cfg = xdec::XCfg {
        enc: e,
        sink,
        repl,
        bom,
        syms,
        syms_undecided,
        syms_switched: if bom != spec::dec::BomMode::Off { alphabet::switched_syms() } else { vec![] },
        k,
        or,
        threads,
        max_states: 5_000_000,
        tag_chunk: "C02",
        tag_single: "C01",
        few_caps: arg(args, "--fewcaps").unwrap_or("0") == "1",
        mixed: arg(args, "--mixed").unwrap_or("0") == "1",
        mixed_sink: arg(args, "--mixed").unwrap_or("0") == "1",
        methods: vec![],
    };
    let t = Instant::now();
    println!("{} syms {} k {}", cfg.label(), cfg.syms.len(), k);
    let out = xdec::explore(&cfg);
    let s = &out.stats;
    println!("states {} transitions {} finished {} depth {} exhaustive {} wall {:.2}s", s.states, s.transitions, s.finished_states, s.max_depth, s.exhaustive, t.elapsed().as_secs_f64());
    for (k, v) in &s.classes {
        println!("  class {:40} {}", k, v);
    }
    for n in &s.notes {
        println!("  note {}", n);
    }
    for (k, v) in &s.suppressed {
        println!("  suppressed {} {}", k, v);
    }
    for ((p, k), c) in &out.vios.counts {
        println!("  VIO {} {} x{}", p, k, c);
    }
    for v in out.vios.list.iter().take(6) {
        println!("  - {} {}: {}\n    {}", v.prop, v.kind, v.msg, v.replay.render().replace('\n', " "));
    }
}

#[allow(dead_code)]
pub fn print_sizes() {
    println!("Decoder {} Encoder {} RefStream {} Key {} EKey {} Call {}", std::mem::size_of::<encoding_rs::Decoder>(), std::mem::size_of::<encoding_rs::Encoder>(), std::mem::size_of::<spec::dec::RefStream>(), std::mem::size_of::<xdec::Key>(), std::mem::size_of::<xenc::EKey>(), std::mem::size_of::<drive::Call>());
}
