//! Engine X for decoders: breadth-first exploration of the real `Decoder` under a driver that
//! owns chunking, capacities and `last`, in lock-step with the reference transducer
//! (DESIGN.md section 3).
use crate::drive::*;
use crate::imp::*;
use crate::json::J;
use crate::spec::dec::{BomMode, RTok, RefStream};
use crate::spec::{used_name, Enc, Kind, Tok};
use crate::x::*;
use encoding_rs::Decoder;
use std::collections::HashMap;
use std::sync::Arc;

#[derive(Clone, Debug, Default)]
pub struct Oracles {
    pub conform: bool,
    pub contract: bool,
    pub wellformed: bool,
    pub query: bool,
    pub progress: bool,
    pub graph: bool,
    pub prefill3: bool,
    pub twin: bool,
    pub flags: bool,
    /// property the per-call flag oracle is charged to ("C09"; "C02"/"C04" when those run it)
    pub flags_prop: &'static str,
    pub encoding_used: bool,
    pub latin1: Option<usize>,
    pub adversarial_str: bool,
    pub reuse_finished: bool,
    pub submin: bool,
    pub aligns: bool,
    pub ladder: bool,
}

#[derive(Clone)]
pub struct XCfg {
    pub enc: Enc,
    pub sink: Sink,
    pub repl: bool,
    pub bom: BomMode,
    pub syms: Vec<Vec<u8>>,
    /// additional symbols offered only while the reference stream has not decided about a BOM
    pub syms_undecided: Vec<Vec<u8>>,
    /// if non-empty: the (small) alphabet offered after a BOM switched the decoder to another
    /// encoding, whose own state space is explored by that encoding's nominal run
    pub syms_switched: Vec<Vec<u8>>,
    pub k: usize,
    pub or: Oracles,
    pub threads: usize,
    pub max_states: usize,
    /// property charged for "chunked history != single call" and for "single call != reference"
    pub tag_chunk: &'static str,
    pub tag_single: &'static str,
    /// reduced capacity set (min, exact, ample) for the big full-alphabet tiers
    pub few_caps: bool,
    /// mixed-method run: every call may use the with- or the without-replacement method
    /// (pending state is method-agnostic and the API allows alternating)
    pub mixed: bool,
    /// mixed-sink run: every call may also pick the UTF-8 or the UTF-16 slice sink (implies mixed)
    pub mixed_sink: bool,
    /// explicit method set of a mixed run (replacement mode, sink); empty = derived from the flags
    pub methods: Vec<(bool, Sink)>,
}

impl XCfg {
    pub fn label(&self) -> String {
        format!(
            "{}/{}/{}/{}",
            self.enc.name,
            self.sink.name(),
            if !self.methods.is_empty() { "mixed-methods" } else if self.mixed_sink { "mixed-sinks" } else if self.mixed { "mixed" } else if self.repl { "repl" } else { "norepl" },
            match self.bom {
                BomMode::Off => "bom-off",
                BomMode::Sniff => "bom-sniff",
                BomMode::Remove => "bom-remove",
            }
        )
    }
    pub fn to_json(&self) -> J {
        J::obj()
            .set("engine", J::s("xdec"))
            .set("encoding", J::s(self.enc.name))
            .set("sink", J::s(self.sink.name()))
            .set("repl", J::Bool(self.repl))
            .set(
                "bom",
                J::s(match self.bom {
                    BomMode::Off => "off",
                    BomMode::Sniff => "sniff",
                    BomMode::Remove => "remove",
                }),
            )
    }
}

pub fn bom_parse(s: &str) -> BomMode {
    match s {
        "off" => BomMode::Off,
        "sniff" => BomMode::Sniff,
        "remove" => BomMode::Remove,
        _ => panic!("bad bom mode"),
    }
}

#[derive(Clone, Copy, PartialEq, Eq, Hash, Debug)]
pub enum DTok {
    Char(u32),
    Err { s: i16, e: i16 },
}

pub const DEBT_CAP: usize = 8;

#[derive(Clone, PartialEq, Eq, Hash)]
pub struct Key {
    pub dec: Decoder,
    pub rs: RefStream,
    /// tokens the implementation produced that the reference has not (yet) produced
    pub di: Vec<DTok>,
    /// tokens the reference produced that the implementation has not (yet) produced
    pub ds: Vec<DTok>,
    pub rem: Vec<u8>,
    pub last: bool,
    pub fin: bool,
    /// the bookkeeping against the reference was re-synchronised after a divergence that this
    /// run does not report (another property's business): reference-dependent oracles are off
    pub tainted: bool,
}

impl Key {
    fn in_chunk(&self) -> bool {
        !self.rem.is_empty() || self.last
    }
}

struct NodeMeta {
    parent: u32,
    call: Call,
    fresh: bool,
    depth: u32,
}

#[derive(Default)]
struct Local {
    stats: Stats,
    vios: VioSet,
    succs: Vec<Succ>,
    edges: Vec<(u32, u32, i32)>,
    /// canonical rendering of the observation of the call being evaluated (for replay checks)
    cur_obs: Option<String>,
    class_counts: Vec<(u16, u64)>,
}

fn class_name(idx: usize) -> String {
    let w = idx % 10;
    let r = (idx / 10) % 10;
    let rk = idx / 100;
    let res = match rk {
        0 => "InputEmpty".to_string(),
        1 => "OutputFull".to_string(),
        k => format!("Malformed({},{})", (k - 2) / 4, (k - 2) % 4),
    };
    format!("{} read{} written{}", res, r, w)
}

pub fn obs_canon(o: &DecObs, utf16: bool) -> String {
    format!("{}|{}|{}|{}|{:?}", o.res.short(), o.read, o.written, if utf16 { hex16(&o.out16) } else { hex(&o.out8) }, o.had_errors)
}

struct Succ {
    parent: u32,
    call: Call,
    fresh: bool,
    to: Result<u32, Arc<Key>>,
    hash: u64,
    /// C08 weight (1 - 4*read for calls that do not end their chunk, -4*read otherwise);
    /// None when the call is outside the progress domain (capacity below minimum)
    weight: Option<i32>,
}

pub struct XOut {
    pub stats: Stats,
    pub vios: VioSet,
}

fn shift(v: &mut Vec<DTok>, by: i16) {
    for t in v.iter_mut() {
        if let DTok::Err { s, e } = t {
            *s -= by;
            *e -= by;
        }
    }
}

fn rel(t: RTok, off: i16) -> DTok {
    match t {
        RTok::Char(c) => DTok::Char(c),
        RTok::Err { start_back, end_back } => DTok::Err { s: off - start_back as i16, e: off - end_back as i16 },
    }
}

fn units_of(c: u32, utf16: bool) -> usize {
    if utf16 {
        if c >= 0x10000 {
            2
        } else {
            1
        }
    } else if c < 0x80 {
        1
    } else if c < 0x800 {
        2
    } else if c < 0x10000 {
        3
    } else {
        4
    }
}

pub struct Explorer<'a> {
    cfg: &'a XCfg,
    /// the same configuration with each other sink of the method set (mixed-sink runs)
    cfg_views: Vec<XCfg>,
    /// the (replacement mode, sink) choices open to every call
    methods: Vec<(bool, Sink)>,
    chunks: Vec<Vec<u8>>,
    chunks_undecided: Vec<Vec<u8>>,
    chunks_switched: Vec<Vec<u8>>,
    nodes: Vec<NodeMeta>,
    keys: Vec<Arc<Key>>,
    index: HashIndex,
    edges: Vec<(u32, u32, i32)>,
    classified: std::sync::atomic::AtomicUsize,
    shard: String,
    node_seen: std::sync::Mutex<std::collections::HashSet<(Decoder, RefStream, Vec<DTok>, Vec<DTok>)>>,
}

fn build_chunks(syms: &[Vec<u8>], k: usize) -> Vec<Vec<u8>> {
    let mut out: Vec<Vec<u8>> = vec![vec![]];
    let mut level: Vec<Vec<u8>> = vec![vec![]];
    for _ in 0..k {
        let mut next = vec![];
        for p in &level {
            for s in syms {
                let mut c = p.clone();
                c.extend_from_slice(s);
                next.push(c);
            }
        }
        out.extend(next.iter().cloned());
        level = next;
    }
    // de-duplicate, keep first occurrence order (shortest first)
    let mut seen = std::collections::HashSet::new();
    out.retain(|c| seen.insert(c.clone()));
    out
}

impl<'a> Explorer<'a> {
    pub fn new(cfg: &'a XCfg) -> Explorer<'a> {
        let mut all = cfg.syms_undecided.clone();
        for s in &cfg.syms {
            if !all.contains(s) {
                all.push(s.clone());
            }
        }
        let chunks_undecided = if cfg.syms_undecided.is_empty() { vec![] } else { build_chunks(&all, cfg.k) };
        let methods: Vec<(bool, Sink)> = if !cfg.methods.is_empty() {
            cfg.methods.clone()
        } else if cfg.mixed_sink {
            vec![(false, Sink::Utf8), (true, Sink::Utf8), (false, Sink::Utf16), (true, Sink::Utf16)]
        } else if cfg.mixed {
            vec![(false, cfg.sink), (true, cfg.sink)]
        } else {
            vec![(cfg.repl, cfg.sink)]
        };
        let mut cfg_views: Vec<XCfg> = vec![];
        for &(_, sk) in &methods {
            if sk != cfg.sink && !cfg_views.iter().any(|v| v.sink == sk) {
                let mut v = cfg.clone();
                v.sink = sk;
                cfg_views.push(v);
            }
        }
        Explorer { cfg, cfg_views, methods, chunks: build_chunks(&cfg.syms, cfg.k), chunks_undecided, chunks_switched: if cfg.syms_switched.is_empty() { vec![] } else { build_chunks(&cfg.syms_switched, cfg.k) }, nodes: vec![], keys: vec![], index: HashIndex::new(), edges: vec![], classified: std::sync::atomic::AtomicUsize::new(0), shard: format!("xdec/{}", cfg.label()), node_seen: std::sync::Mutex::new(std::collections::HashSet::new()) }
    }

    fn query(&self, dec: &Decoder, n: usize, repl: bool, sink: Sink) -> Option<usize> {
        match (sink, repl) {
            (Sink::Utf16, _) => dec.max_utf16_buffer_length(n),
            (_, true) => dec.max_utf8_buffer_length(n),
            (_, false) => dec.max_utf8_buffer_length_without_replacement(n),
        }
    }

    /// Reference output size (units of the sink) of `src` from this node, owed tokens included.
    fn ref_units(&self, key: &Key, src: &[u8], last: bool, repl: bool, sink: Sink) -> usize {
        let utf16 = sink.is_utf16();
        let mut rs = key.rs.clone();
        let mut tmp = vec![];
        for &b in src {
            rs.feed(b, &mut tmp);
        }
        if last {
            rs.eof(&mut tmp);
        }
        let mut w = 0;
        for t in key.ds.iter() {
            w += match t {
                DTok::Char(c) => units_of(*c, utf16),
                DTok::Err { .. } => {
                    if repl {
                        units_of(0xFFFD, utf16)
                    } else {
                        0
                    }
                }
            };
        }
        for t in &tmp {
            w += match t {
                RTok::Char(c) => units_of(*c, utf16),
                RTok::Err { .. } => {
                    if repl {
                        units_of(0xFFFD, utf16)
                    } else {
                        0
                    }
                }
            };
        }
        w
    }

    fn caps(&self, key: &Key, src: &[u8], last: bool, repl: bool, sink: Sink) -> Vec<usize> {
        let min = sink.min_cap();
        let w = self.ref_units(key, src, last, repl, sink);
        let mut v: Vec<usize> = vec![];
        if self.cfg.few_caps {
            v.extend_from_slice(&[min, w.max(min), w + 64]);
        } else {
            for c in min..min + 4 {
                v.push(c);
            }
            for c in w.saturating_sub(2)..=w + 4 {
                v.push(c);
            }
            if w > 18 {
                v.extend_from_slice(&[15, 16, 17, 18]);
            }
            if w > 34 {
                v.extend_from_slice(&[31, 32, 33]);
            }
            v.push(w + 64);
        }
        if !self.cfg.or.query && !self.cfg.few_caps {
            if let Some(q) = self.query(&key.dec, src.len(), repl, sink) {
                if q < 1 << 20 {
                    v.push(q);
                }
            }
        }
        v.retain(|c| *c >= min);
        if self.cfg.or.query {
            // C07 does not restrict the guarantee to the documented minimum sizes: the queried
            // value is offered exactly, however small it is
            if let Some(q) = self.query(&key.dec, src.len(), repl, sink) {
                if q < 1 << 20 {
                    v.push(q);
                }
            }
        }
        if self.cfg.or.submin {
            for c in 0..min {
                v.push(c);
            }
        }
        v.sort();
        v.dedup();
        v
    }

    fn path(&self, mut id: u32) -> Vec<(Call, bool)> {
        let mut v = vec![];
        while id > 1 {
            let n = &self.nodes[id as usize];
            v.push((n.call.clone(), n.fresh));
            id = n.parent;
        }
        v.reverse();
        v
    }

    fn replay_json(&self, parent: u32, call: &Call, extra: J) -> J {
        let mut calls: Vec<J> = self.path(parent).iter().map(|(c, _)| c.to_json()).collect();
        calls.push(call.to_json());
        let mut j = self.cfg.to_json();
        j.put("calls", J::Arr(calls));
        j.put("detail", extra);
        j
    }

    fn replay_json_obs(&self, l: &Local, parent: u32, call: &Call, extra: J) -> J {
        let mut j = self.replay_json(parent, call, extra);
        match &l.cur_obs {
            Some(o) => j.put("expect_last", J::s(o)),
            None => j.put("expect_last", J::Null),
        }
        j
    }

    fn vio(&self, l: &mut Local, prop: &str, kind: &str, msg: String, parent: u32, call: &Call) {
        if l.vios.wants(prop, kind) {
            let extra = J::obj().set("message", J::s(&msg));
            let rj = self.replay_json_obs(l, parent, call, extra);
            l.vios.add(Violation { prop: prop.to_string(), kind: kind.to_string(), msg, replay: rj });
        } else {
            l.vios.count_only(prop, kind);
        }
    }

    /// Like `vio`, then restores the saved observation.
    #[allow(clippy::too_many_arguments)]
    fn vio_keep(&self, saved: Option<String>, l: &mut Local, prop: &str, kind: &str, msg: String, parent: u32, call: &Call) {
        self.vio(l, prop, kind, msg, parent, call);
        l.cur_obs = saved;
    }

    /// The documented loop continued to the end of the stream after `calls`, public API only.
    pub fn close_history(cfg: &XCfg, calls: &[Call]) -> Result<(DecRun, Vec<u8>), String> {
        let mut dec = new_decoder(&cfg.enc, cfg.bom);
        let mut run = DecRun { toks: vec![], obs: vec![], finished: false, used: cfg.enc.name, any_errors: false, total_read: 0, problems: vec![], panic: None };
        let mut stream: Vec<u8> = vec![];
        let mut rem: Vec<u8> = vec![];
        let mut last = false;
        let mut done_chunk = true;
        let mut t: i64 = 0;
        let mut do_call = |dec: &mut Decoder, run: &mut DecRun, src: &[u8], cap: usize, lastf: bool, fill: u8, repl: bool, sink: Sink| -> Result<(Res, usize), String> {
            let fill = if sink == Sink::Str { fill & 0x7F } else { fill };
            let d = Dst { cap, fill, align: 0, prior: None };
            let o = call_decoder(dec, sink, repl, src, lastf, &d)?;
            t += o.read as i64;
            match scalars(&o, sink) {
                Ok(v) => {
                    for c in v {
                        run.toks.push(Tok::Char(c));
                    }
                }
                Err(m) => run.problems.push(m),
            }
            if let Res::Malformed(len, after) = o.res {
                run.toks.push(Tok::Err { start: t - after as i64 - len as i64, end: t - after as i64 });
            }
            if o.read > src.len() {
                return Err("read beyond source".into());
            }
            let r = (o.res, o.read);
            run.obs.push(o);
            Ok(r)
        };
        for c in calls {
            let (res, read) = do_call(&mut dec, &mut run, &c.src, c.cap, c.last, c.fill, c.repl(cfg.repl), c.sink(cfg.sink))?;
            stream.extend_from_slice(&c.src[..read]);
            rem = c.src[read..].to_vec();
            last = c.last;
            done_chunk = res == Res::InputEmpty;
            if done_chunk && last {
                run.finished = true;
            }
        }
        let mut guard = 0;
        while !run.finished {
            guard += 1;
            if guard > 64 + 4 * rem.len() {
                return Err("closing loop does not terminate".into());
            }
            if done_chunk {
                // a fresh, empty, final chunk
                rem = vec![];
                last = true;
            }
            let cap = rem.len() * 4 + 64;
            let (res, read) = do_call(&mut dec, &mut run, &rem.clone(), cap, last, 0, cfg.repl, cfg.sink)?;
            stream.extend_from_slice(&rem[..read]);
            rem = rem[read..].to_vec();
            done_chunk = res == Res::InputEmpty;
            if done_chunk && last {
                run.finished = true;
            }
        }
        run.used = dec.encoding().name();
        Ok((run, stream))
    }

    /// Decide which property a divergence belongs to (DESIGN 3.5-4).
    fn classify(&self, l: &mut Local, what: &str, parent: u32, call: &Call) {
        let cfg = self.cfg;
        // classification replays whole histories: do it for the first few divergences only
        if self.classified.fetch_add(1, std::sync::atomic::Ordering::Relaxed) >= 24 {
            l.vios.count_only(cfg.tag_chunk, "divergence-not-classified-after-the-first-24");
            return;
        }
        let mut calls: Vec<Call> = self.path(parent).into_iter().map(|(c, _)| c).collect();
        calls.push(call.clone());
        let closed = Self::close_history(cfg, &calls);
        let (chunked, stream) = match closed {
            Ok(x) => x,
            Err(m) => {
                // the history cannot even be completed: charge the chunking property
                self.vio(l, cfg.tag_chunk, &format!("{}:cannot-complete", what), format!("history cannot be completed: {}", m), parent, call);
                return;
            }
        };
        let single = decode_stream_single(&cfg.enc, cfg.bom, cfg.sink, cfg.repl, &stream);
        let (reft, _) = crate::spec::ref_decode_all(&cfg.enc, cfg.bom, &stream);
        let reft = if cfg.repl || cfg.mixed { fold_repl(&reft) } else { reft };
        let (chunked, single) = if cfg.mixed {
            let mut c = chunked;
            c.toks = fold_repl(&c.toks);
            (c, single.map(|mut s| {
                s.toks = fold_repl(&s.toks);
                s
            }))
        } else {
            (chunked, single)
        };
        let mut charged = false;
        match &single {
            Ok(s) => {
                if s.toks != reft {
                    charged = true;
                    let msg = format!(
                        "single call on stream {} yields [{}], the Standard's decoder yields [{}]",
                        hex(&stream),
                        toks_short(&s.toks),
                        toks_short(&reft)
                    );
                    if l.vios.wants(cfg.tag_single, "single-vs-reference") {
                        let mut j = cfg.to_json();
                        j.put("calls", J::Arr(vec![Call::new(&stream, stream.len() * 4 + 64, true).to_json()]));
                        j.put("loop", J::Bool(true));
                        j.put("detail", J::obj().set("message", J::s(&msg)).set("stream", J::s(&hex(&stream))));
                        l.vios.add(Violation { prop: cfg.tag_single.to_string(), kind: "single-vs-reference".into(), msg, replay: j });
                    } else {
                        l.vios.count_only(cfg.tag_single, "single-vs-reference");
                    }
                }
                if s.toks != chunked.toks {
                    charged = true;
                    let msg = format!(
                        "{}: chunked history over stream {} yields [{}], a single call yields [{}]",
                        what,
                        hex(&stream),
                        toks_short(&chunked.toks),
                        toks_short(&s.toks)
                    );
                    self.vio(l, cfg.tag_chunk, "chunked-vs-single", msg, parent, call);
                }
            }
            Err(m) => {
                charged = true;
                self.vio(l, cfg.tag_single, "single-call-panic", format!("single call on {} panicked: {}", hex(&stream), m), parent, call);
            }
        }
        if !charged {
            self.vio(
                l,
                "MACHINERY",
                "unclassified-divergence",
                format!("{}: bookkeeping diverged but complete runs agree on stream {}", what, hex(&stream)),
                parent,
                call,
            );
        }
    }

    /// Executes one action from node `id` and records everything.
    #[allow(clippy::too_many_arguments)]
    fn transition(&self, l: &mut Local, id: u32, key: &Key, src: &[u8], last: bool, fresh: bool, cap: usize, dalign: u8, salign: u8, repl: bool, sink: Sink) {
        // the view of the configuration with this call's sink (mixed-sink runs)
        let cfg: &XCfg = if sink == self.cfg.sink { self.cfg } else { self.cfg_views.iter().find(|v| v.sink == sink).expect("view for sink") };
        let or = &cfg.or;
        let min = cfg.sink.min_cap();
        let base_fill: u8 = if cfg.sink == Sink::Str { 0x25 } else { 0xA5 };
        let method = if cfg.mixed_sink || !cfg.methods.is_empty() { Call::method_of(repl, sink) } else if cfg.mixed { repl as u8 } else { 2 };
        let call = Call { src: src.to_vec(), cap, last, fill: base_fill, dalign, salign, method, prior: None };
        l.stats.transitions += 1;
        let mut dec = key.dec.clone();
        let d = Dst { cap, fill: base_fill, align: dalign as usize, prior: None };
        let r = with_aligned_src(src, salign as usize, |s| call_decoder(&mut dec, cfg.sink, repl, s, last, &d));
        l.cur_obs = r.as_ref().ok().map(|o| obs_canon(o, cfg.sink.is_utf16())).or(Some("panic".into()));
        let o = match r {
            Ok(o) => o,
            Err(m) => {
                l.stats.class("panic");
                if cap >= min {
                    self.vio(l, "C06", "panic", format!("call panicked with capacity {} >= minimum {}: {}", cap, min, m), id, &call);
                    if or.twin && repl && !cfg.mixed {
                        // does the documented manual procedure get through where the with-replacement
                        // method panics?
                        self.twin_after_panic(l, id, &call, &m);
                    }
                    if or.encoding_used && cfg.bom != BomMode::Off {
                        // BOM handling must work for any split: a panic while bytes are (or were just)
                        // withheld means they are not delivered at all
                        self.vio(l, "C10", "panic", format!("BOM-handling decoder panicked with capacity {} >= minimum {}: {}", cap, min, m), id, &call);
                    }
                }
                return;
            }
        };
        {
            let rk = match o.res {
                Res::InputEmpty => 0usize,
                Res::OutputFull => 1,
                Res::Malformed(len, after) => 2 + ((len.min(5) as usize) * 4 + after.min(3) as usize),
            };
            let ci = ((rk * 10 + o.read.min(9)) * 10 + o.written.min(9)) as u16;
            match l.class_counts.iter_mut().find(|e| e.0 == ci) {
                Some(e) => e.1 += 1,
                None => l.class_counts.push((ci, 1)),
            }
        }
        {
            let f = Fnv::new().bytes(src).u(cap as u64).b(last as u8).u(o.read as u64).u(o.written as u64).bytes(&o.out8).u16s(&o.out16).s(&o.res.short()).b(match o.had_errors {
                None => 2,
                Some(b) => b as u8,
            });
            describe(|| format!("{} src {} cap {} last {} -> {}", cfg.label(), hex(src), cap, last, obs_canon(&o, cfg.sink.is_utf16())));
            l.stats.dig(&self.shard, f);
        }
        // ---- C06 contract
        let mut broken = false;
        if o.read > src.len() {
            self.vio(l, "C06", "read-exceeds-source", format!("read {} > source length {}", o.read, src.len()), id, &call);
            broken = true;
        }
        if o.written > cap || o.guard_broken {
            self.vio(l, "C06", "write-outside-destination", format!("written {} with capacity {} (guard broken: {})", o.written, cap, o.guard_broken), id, &call);
            broken = true;
        }
        if o.res == Res::InputEmpty && o.read != src.len() {
            self.vio(l, "C06", "inputempty-with-unread-input", format!("InputEmpty with read {} of {}", o.read, src.len()), id, &call);
            broken = true;
        }
        if o.container_disturbed {
            self.vio(l, "C06", "container-disturbed", "String was reallocated or its existing contents altered".into(), id, &call);
        }
        if broken {
            return;
        }
        if let Res::Malformed(len, after) = o.res {
            if !(1..=4).contains(&len) || after > 3 || len + after > 6 {
                self.vio(l, cfg.tag_single, "malformed-numbers-out-of-range", format!("Malformed({},{})", len, after), id, &call);
            }
        }
        // ---- C05 well-formedness of the written prefix / of the whole str
        let chars_r = scalars(&o, cfg.sink);
        if let Err(m) = &chars_r {
            self.vio(l, "C05", "written-prefix-ill-formed", m.clone(), id, &call);
        }
        if o.whole_invalid {
            self.vio(l, "C05", "destination-left-invalid", "the str/String handed to a safe function is not valid UTF-8 afterwards".into(), id, &call);
        }
        // ---- C18: three pre-fills
        if or.prefill3 {
            let fills: [u8; 2] = if cfg.sink == Sink::Str { [0x00, 0x7F] } else { [0x00, 0xFF] };
            for f in fills {
                let mut d2 = key.dec.clone();
                let dd = Dst { cap, fill: f, align: dalign as usize, prior: None };
                let r2 = with_aligned_src(src, salign as usize, |s| call_decoder(&mut d2, cfg.sink, repl, s, last, &dd));
                let same = match &r2 {
                    Ok(o2) => o2.res == o.res && o2.read == o.read && o2.written == o.written && o2.had_errors == o.had_errors && o2.out8 == o.out8 && o2.out16 == o.out16 && d2 == dec,
                    Err(_) => false,
                };
                if !same {
                    let mut c2 = call.clone();
                    c2.fill = f;
                    let saved = l.cur_obs.take();
                    l.cur_obs = r2.as_ref().ok().map(|o| obs_canon(o, cfg.sink.is_utf16()));
                    self.vio_keep(saved, 
                        l,
                        "C18",
                        "result-depends-on-prefill",
                        format!("pre-fill {:02X} gives {:?}, pre-fill {:02X} gives ({}, {}, {}, out {})", f, r2.as_ref().map(|x| (x.res, x.read, x.written, hex(&x.out8), hex16(&x.out16))), base_fill, o.res.short(), o.read, o.written, if cfg.sink.is_utf16() { hex16(&o.out16) } else { hex(&o.out8) }),
                        id,
                        &c2,
                    );
                    break;
                }
            }
        }
        // ---- C05 (ii): adversarial prior contents of a &mut str
        if or.adversarial_str && cfg.sink == Sink::Str {
            for filler in ["é", "€", "😀"] {
                for lead_ascii in 0..4usize {
                    let mut p = String::new();
                    for _ in 0..lead_ascii.min(cap) {
                        p.push('x');
                    }
                    while p.len() + filler.len() <= cap {
                        p.push_str(filler);
                    }
                    while p.len() < cap {
                        p.push('y');
                    }
                    let mut d2 = key.dec.clone();
                    let dd = Dst { cap, fill: 0, align: 0, prior: Some(&p) };
                    let saved = l.cur_obs.take();
                    let res2 = call_decoder(&mut d2, cfg.sink, repl, src, last, &dd);
                    match res2 {
                        Ok(o2) => {
                            let mut cp = call.clone();
                            cp.prior = Some(p.clone());
                            cp.dalign = 0;
                            if o2.whole_invalid {
                                l.cur_obs = Some(obs_canon(&o2, false));
                                self.vio(l, "C05", "destination-left-invalid", format!("prior content {:?}: the &mut str is not valid UTF-8 after the call (written {})", p, o2.written), id, &cp);
                            }
                            if o2.res != o.res || o2.read != o.read || o2.out8 != o.out8 {
                                l.cur_obs = Some(obs_canon(&o2, false));
                                self.vio(l, "C18", "result-depends-on-prefill", format!("prior str content {:?} changes the result", p), id, &cp);
                            }
                        }
                        Err(m) => {
                            if cap >= min {
                                self.vio(l, "C06", "panic", format!("panicked with prior content {:?}: {}", p, m), id, &call);
                            }
                        }
                    }
                    l.cur_obs = saved;
                }
            }
        }
        let chars = match chars_r {
            Ok(v) => v,
            Err(_) => return,
        };
        // ---- C07
        if or.query {
            if let Some(q) = self.query(&key.dec, src.len(), repl, sink) {
                if cap >= q && o.res == Res::OutputFull {
                    self.vio(l, "C07", "outputfull-despite-queried-capacity", format!("query for {} input bytes returned {}, capacity {} offered, result OutputFull (read {}, written {})", src.len(), q, cap, o.read, o.written), id, &call);
                }
            }
        }
        // ---- C08 (i)
        let in_domain = cap >= min;
        if or.progress && in_domain && o.res != Res::InputEmpty {
            let reported = matches!(o.res, Res::Malformed(..));
            if o.read == 0 && o.written == 0 && !reported {
                self.vio(l, "C08", "no-progress", format!("{} with read 0 and written 0 at capacity {}", o.res.short(), cap), id, &call);
                return;
            }
        }
        // ---- C10: encoding()
        // (evaluated after the reference has been fed, below)
        // ---- conformance bookkeeping
        let r = o.read;
        let mut rs = key.rs.clone();
        let mut di = key.di.clone();
        let mut ds = key.ds.clone();
        shift(&mut di, r as i16);
        shift(&mut ds, r as i16);
        let mut tmp: Vec<RTok> = vec![];
        for j in 0..r {
            tmp.clear();
            rs.feed(src[j], &mut tmp);
            let off = -((r - 1 - j) as i16);
            for t in &tmp {
                ds.push(rel(*t, off));
            }
        }
        let own_start = di.len();
        for c in &chars {
            di.push(DTok::Char(*c));
        }
        if let Res::Malformed(len, after) = o.res {
            di.push(DTok::Err { s: -(after as i16) - len as i16, e: -(after as i16) });
        }
        let fin = o.res == Res::InputEmpty && last;
        if fin {
            tmp.clear();
            rs.eof(&mut tmp);
            for t in &tmp {
                ds.push(rel(*t, 0));
            }
        }
        // cancel the common prefix, remembering which of this call's tokens were substitutions
        let mut n = 0;
        let mut own_subst = false;
        let mut own_classified = 0usize;
        let own_count = di.len() - own_start;
        let eq = |a: &DTok, b: &DTok| -> bool {
            if cfg.repl || cfg.mixed {
                match (a, b) {
                    (DTok::Char(0xFFFD), DTok::Err { .. }) => true,
                    _ => a == b,
                }
            } else {
                a == b
            }
        };
        while n < di.len() && n < ds.len() && eq(&di[n], &ds[n]) {
            if n >= own_start {
                own_classified += 1;
                if matches!(ds[n], DTok::Err { .. }) {
                    own_subst = true;
                }
            }
            n += 1;
        }
        let diverged = n < di.len() && n < ds.len();
        di.drain(..n);
        ds.drain(..n);
        let mut tainted = key.tainted;
        if or.encoding_used && !tainted {
            let want = used_name(cfg.enc.name, rs.used);
            let got = dec.encoding().name();
            if want != got {
                self.vio(l, "C10", "encoding-used", format!("Decoder::encoding() is {} but the stream so far selects {}", got, want), id, &call);
            }
        }
        if or.conform {
            if diverged {
                self.classify(l, "token mismatch", id, &call);
                return;
            }
            if di.len() > DEBT_CAP || ds.len() > DEBT_CAP {
                self.classify(l, "output debt overflow", id, &call);
                return;
            }
            if fin && (!di.is_empty() || !ds.is_empty()) {
                self.classify(l, "stream finished with outstanding tokens", id, &call);
                return;
            }
        } else if diverged || di.len() > DEBT_CAP || ds.len() > DEBT_CAP || (fin && (!di.is_empty() || !ds.is_empty())) {
            // not this run's property: keep following the implementation (so that its own
            // oracles - progress, pre-fill, twin, contract - still see what happens next)
            *l.stats.suppressed.entry("conformance".into()).or_insert(0) += 1;
            di.clear();
            ds.clear();
            tainted = true;
        }
        // ---- C09 flags: had_errors iff one of this call's units is a substitution
        if or.flags && repl && !cfg.mixed && !tainted {
            let mut known = own_classified == own_count;
            if !known && ds.is_empty() {
                // the implementation ran ahead by peeking: classify with a look-ahead clone
                let mut la = rs.clone();
                let mut ltoks: Vec<RTok> = vec![];
                for &b in &src[r..] {
                    la.feed(b, &mut ltoks);
                    if ltoks.len() >= di.len() {
                        break;
                    }
                }
                if ltoks.len() < di.len() && last {
                    la.eof(&mut ltoks);
                }
                if ltoks.len() >= di.len() {
                    known = true;
                    let own_from = own_start.saturating_sub(n);
                    for (i, (a, b)) in di.iter().zip(ltoks.iter()).enumerate() {
                        match (a, b) {
                            (DTok::Char(0xFFFD), RTok::Err { .. }) => {
                                if i >= own_from {
                                    own_subst = true
                                }
                            }
                            (DTok::Char(x), RTok::Char(y)) if x == y => {}
                            _ => known = false,
                        }
                    }
                }
            }
            if known {
                if o.had_errors != Some(own_subst) {
                    self.vio(l, if or.flags_prop.is_empty() { "C09" } else { or.flags_prop }, "had-errors-flag", format!("had_errors = {:?} but this call {} a replacement (wrote {} scalars)", o.had_errors, if own_subst { "wrote" } else { "did not write" }, own_count), id, &call);
                }
            }
        }
        // ---- C09 twin at the end of complete histories
        if or.twin && repl && !cfg.mixed && fin {
            self.twin(l, id, &call);
        }
        if fin {
            l.stats.finished_states += 0; // counted at merge
        }
        let rem: Vec<u8> = if o.res == Res::InputEmpty { vec![] } else { src[r..].to_vec() };
        let nlast = if o.res == Res::InputEmpty { false } else { last };
        // rem empty and not last: equivalent to a fresh node (the empty chunk is an action)
        let nlast = if rem.is_empty() && !last { false } else { nlast };
        let nk = Key { dec, rs, di, ds, rem, last: nlast && !fin, fin, tainted };
        let weight = if in_domain { Some(if o.res == Res::InputEmpty { -4 * r as i32 } else { 1 - 4 * r as i32 }) } else { None };
        let h = hash_of(&nk);
        match self.index.find(h, |i| *self.keys[i as usize] == nk) {
            Some(i) => {
                // known target: nothing to merge; remember the edge for the progress graph only
                if self.cfg.or.graph {
                    if let Some(w) = weight {
                        l.edges.push((id, i, w));
                    }
                }
            }
            None => {
                // new in this level: drop duplicates found by this work item already
                let dup = l.succs.iter().rev().take(64).any(|s| s.hash == h && matches!(&s.to, Err(k) if **k == nk));
                if dup && !self.cfg.or.graph {
                    return;
                }
                l.succs.push(Succ { parent: id, call, fresh, to: Err(Arc::new(nk)), weight, hash: h })
            }
        }
    }

    fn twin_after_panic(&self, l: &mut Local, parent: u32, call: &Call, panic: &str) {
        let cfg = self.cfg;
        let mut chunks: Vec<Vec<u8>> = vec![];
        for (c, fresh) in self.path(parent).iter() {
            if *fresh || chunks.is_empty() {
                chunks.push(c.src.clone());
            }
        }
        // the failing call's source is either a new chunk or the remainder of the current one
        let parent_key = &self.keys[parent as usize];
        if parent_key.in_chunk() && !chunks.is_empty() {
            // remainder: already part of the last chunk
        } else {
            chunks.push(call.src.clone());
        }
        let refs: Vec<&[u8]> = chunks.iter().map(|c| c.as_slice()).collect();
        if let Ok(m) = decode_chunks_ample(&cfg.enc, cfg.bom, cfg.sink, false, &refs, call.last) {
            if m.panic.is_none() {
                self.vio(l, "C09", "replacement-panics-manual-succeeds", format!("the with-replacement method panicked ({}) where the documented manual procedure on the same chunks yields [{}]", panic, toks_short(&fold_repl(&m.toks))), parent, call);
            }
        }
    }

    fn twin(&self, l: &mut Local, parent: u32, call: &Call) {
        let cfg = self.cfg;
        let mut p = self.path(parent);
        p.push((call.clone(), true));
        let calls: Vec<Call> = p.iter().map(|(c, _)| c.clone()).collect();
        // the with-replacement history itself, through the public API
        let hist = match run_decoder_calls(&cfg.enc, cfg.bom, cfg.sink, true, &calls) {
            Ok(h) if h.panic.is_none() => h,
            _ => return,
        };
        // the same stream with the same chunk boundaries: consumed bytes per fresh chunk
        let mut chunks: Vec<Vec<u8>> = vec![];
        let mut closes = false;
        {
            let mut cur: Option<Vec<u8>> = None;
            for ((c, fresh), o) in p.iter().zip(hist.obs.iter()) {
                let fresh = *fresh || cur.is_none();
                if fresh {
                    if let Some(x) = cur.take() {
                        chunks.push(x);
                    }
                    cur = Some(vec![]);
                }
                cur.as_mut().unwrap().extend_from_slice(&c.src[..o.read.min(c.src.len())]);
                closes = c.last;
            }
            if let Some(x) = cur.take() {
                chunks.push(x);
            }
        }
        let refs: Vec<&[u8]> = chunks.iter().map(|c| c.as_slice()).collect();
        let manual = match decode_chunks_ample(&cfg.enc, cfg.bom, cfg.sink, false, &refs, closes) {
            Ok(m) => m,
            Err(m) => {
                self.vio(l, "C09", "manual-procedure-failed", m, parent, call);
                return;
            }
        };
        let manual_toks = fold_repl(&manual.toks);
        if manual_toks != hist.toks {
            self.vio(
                l,
                "C09",
                "replacement-vs-manual",
                format!("with replacement: [{}]; manual procedure on the same chunks: [{}]", toks_short(&hist.toks), toks_short(&manual_toks)),
                parent,
                call,
            );
        }
    }

    fn expand(&self, id: u32, lo: usize, hi: usize) -> Local {
        let mut l = Local::default();
        l.stats = Stats::new();
        let key = self.keys[id as usize].clone();
        if key.fin {
            if lo != 0 {
                return l;
            }
            if self.cfg.or.reuse_finished {
                self.reuse_finished(&mut l, id, &key);
            }
            return l;
        }
        if lo == 0 {
            self.node_oracles(&mut l, id, &key);
        }
        let aligns: &[(u8, u8)] = if self.cfg.or.aligns { &[(0, 0), (1, 1), (1, 0), (7, 15), (15, 7), (8, 8)] } else { &[(0, 0)] };
        if key.in_chunk() {
            if lo != 0 {
                return l;
            }
            let src = key.rem.clone();
            for &(repl, sink) in self.methods.iter() {
                for cap in self.caps(&key, &src, key.last, repl, sink) {
                    self.transition(&mut l, id, &key, &src, key.last, false, cap, 0, 0, repl, sink);
                }
            }
        } else {
            // BOM-ish symbols are offered while the reference is undecided and, in every BOM mode,
            // at the very start of the stream (a BOM-removal decoder of another encoding must
            // pass EF BB BF / FE FF / FF FE through: there the reference is decided from the start)
            let chunks = if (!key.rs.decided || id == 1) && !self.chunks_undecided.is_empty() {
                &self.chunks_undecided
            } else if key.rs.used != crate::spec::dec::Used::Nominal && !self.chunks_switched.is_empty() {
                &self.chunks_switched
            } else {
                &self.chunks
            };
            for ch in chunks.iter().skip(lo).take(hi - lo) {
                for last in [false, true] {
                    for &(repl, sink) in self.methods.iter() {
                        let caps = self.caps(&key, ch, last, repl, sink);
                        for cap in caps {
                            let al: &[(u8, u8)] = if ch.len() >= 16 { aligns } else { &[(0, 0)] };
                            for &(da, sa) in al {
                                self.transition(&mut l, id, &key, ch, last, true, cap, da, sa, repl, sink);
                            }
                        }
                    }
                }
            }
        }
        l
    }

    /// Oracles evaluated once per node (not per transition).
    fn node_oracles(&self, l: &mut Local, id: u32, key: &Key) {
        let cfg = self.cfg;
        l.cur_obs = None;
        if !cfg.or.ladder && cfg.or.latin1.is_none() {
            return;
        }
        // the node-level oracles depend on (converter state, reference state, debt) only
        {
            let k = (key.dec.clone(), key.rs.clone(), key.di.clone(), key.ds.clone());
            let mut seen = self.node_seen.lock().unwrap();
            if !seen.insert(k) {
                return;
            }
        }
        l.stats.nontrivial += 1;
        if cfg.or.ladder {
            let max = usize::MAX;
            let ladder: Vec<usize> = vec![0, 1, 2, 3, 1 << 16, 1 << 31, 1 << 32, max / 4 - 1, max / 4, max / 4 + 1, max / 3 - 1, max / 3, max / 3 + 1, max / 2 - 1, max / 2, max / 2 + 1, max - 3, max - 2, max - 1, max];
            let qs: [(&str, Box<dyn Fn(usize) -> Option<usize>>); 3] = [
                ("max_utf8_buffer_length", Box::new(|n| key.dec.max_utf8_buffer_length(n))),
                ("max_utf8_buffer_length_without_replacement", Box::new(|n| key.dec.max_utf8_buffer_length_without_replacement(n))),
                ("max_utf16_buffer_length", Box::new(|n| key.dec.max_utf16_buffer_length(n))),
            ];
            for (name, q) in qs.iter() {
                let mut prev: Option<Option<usize>> = None;
                for &n in &ladder {
                    let v = q(n);
                    l.stats.evaluations += 1;
                    let ok = match (prev, v) {
                        (None, _) => true,
                        (Some(None), Some(_)) => false,
                        (Some(Some(a)), Some(b)) => b >= a,
                        (Some(Some(_)), None) => true,
                        (Some(None), None) => true,
                    };
                    // the value must also be at least n/… cannot be below the input length for UTF-16 halves; keep to monotonicity
                    if !ok {
                        let call = Call::new(&[], 0, false);
                        self.vio(l, "C07", "query-overflow", format!("{}({}) = {:?} after a smaller argument gave {:?}: not monotone / wrapped", name, n, v, prev.unwrap()), id, &call);
                        break;
                    }
                    prev = Some(v);
                }
            }
        }
        if let Some(nmax) = cfg.or.latin1 {
            if !key.tainted {
                self.latin1(l, id, key, nmax);
            }
        }
    }

    fn latin1(&self, l: &mut Local, id: u32, key: &Key, nmax: usize) {
        let cfg = self.cfg;
        #[derive(PartialEq, Debug)]
        enum Want {
            MustNone,
            MustSome,
            Either,
        }
        let used = key.rs.used;
        let used_kind = match used {
            crate::spec::dec::Used::Nominal => cfg.enc.kind,
            crate::spec::dec::Used::Utf8 => Kind::Utf8,
            crate::spec::dec::Used::Utf16Be => Kind::Utf16Be,
            crate::spec::dec::Used::Utf16Le => Kind::Utf16Le,
        };
        let never = matches!(used_kind, Kind::Utf16Be | Kind::Utf16Le | Kind::Replacement);
        let want = if never && key.rs.decided {
            Want::MustNone
        } else if !key.di.is_empty() {
            // the implementation has legitimately run ahead of the bytes acknowledged so far
            // (it peeked at unread input or at the end of the stream): no requirement
            Want::Either
        } else if !key.rs.decided {
            Want::MustNone
        } else if key.rs.dec.pending_len() > 0 || !key.ds.is_empty() {
            Want::MustNone
        } else if key.rs.dec.is_initial() {
            Want::MustSome
        } else {
            Want::Either
        };
        // also: a decoder whose nominal encoding is never compatible but still sniffing is MustNone (covered by !decided)
        let mut tails: Vec<Vec<u8>> = vec![vec![]];
        for s in &cfg.syms {
            if s.len() <= 4 {
                tails.push(s.clone());
            }
        }
        let sb_table: Option<&Vec<u32>> = if let Kind::SingleByte(i) = used_kind { Some(&crate::spec::data::data().single_byte[i as usize].1) } else { None };
        for n in 0..=nmax {
            for tail in &tails {
                let mut buf: Vec<u8> = (0..n).map(|i| b'a' + (i % 26) as u8).collect();
                buf.extend_from_slice(tail);
                let before = key.dec.clone();
                let ans = key.dec.latin1_byte_compatible_up_to(&buf);
                l.stats.evaluations += 1;
                let call = Call::new(&buf, 0, false);
                if before != key.dec {
                    self.vio(l, "C19", "query-changed-state", "decoder state differs after the query".into(), id, &call);
                }
                match (&want, ans) {
                    (Want::MustNone, Some(x)) => {
                        self.vio(l, "C19", "some-where-none-required", format!("returned Some({}) while the decoder is mid-sequence / undecided / never compatible (reference state {:?})", x, key.rs), id, &call);
                        return;
                    }
                    (Want::MustSome, None) => {
                        self.vio(l, "C19", "none-in-neutral-state", format!("returned None in the initial converting state (reference state {:?})", key.rs), id, &call);
                        return;
                    }
                    _ => {}
                }
                if let Some(m) = ans {
                    l.stats.nontrivial += 1;
                    if m > buf.len() {
                        self.vio(l, "C19", "beyond-buffer", format!("Some({}) for a buffer of {} bytes", m, buf.len()), id, &call);
                        return;
                    }
                    // decoding the first m bytes must give exactly those byte values
                    let mut d2 = key.dec.clone();
                    let mut out = vec![0u16; m + 8];
                    let r = std::panic::catch_unwind(std::panic::AssertUnwindSafe(|| d2.decode_to_utf16_without_replacement(&buf[..m], &mut out, false)));
                    let ok = match r {
                        Ok((encoding_rs::DecoderResult::InputEmpty, rd, wr)) => rd == m && wr == m && out[..m].iter().zip(buf[..m].iter()).all(|(u, b)| *u == *b as u16),
                        _ => false,
                    };
                    if !ok {
                        self.vio(l, "C19", "prefix-not-byte-compatible", format!("Some({}) but decoding those bytes does not yield the same values", m), id, &call);
                        return;
                    }
                    // exactness
                    if m < buf.len() {
                        let b = buf[m];
                        let stop_ok = match used_kind {
                            Kind::Iso2022Jp => b >= 0x80 || b == 0x0E || b == 0x0F || b == 0x1B,
                            Kind::SingleByte(_) => b >= 0x80 && sb_table.unwrap()[(b - 0x80) as usize] != b as u32,
                            _ => b >= 0x80,
                        };
                        if !stop_ok {
                            self.vio(l, "C19", "stops-short", format!("Some({}) stops at byte {:02X}, which this encoding passes through unchanged", m, b), id, &call);
                            return;
                        }
                    }
                }
            }
        }
    }

    fn reuse_finished(&self, l: &mut Local, id: u32, key: &Key) {
        l.cur_obs = None;
        // C05 (iv): one more safe call on a finished decoder; panic or not, the destination
        // must still be valid UTF-8 and a String's old contents untouched.
        let cfg = self.cfg;
        for src in [&b""[..], &b"a"[..], &b"\xE2\x82"[..], &b"abcdefghijklmnopqrstuvwxyz\xFF"[..]] {
            for repl in [true, false] {
                for to_string in [false, true] {
                    l.stats.evaluations += 1;
                    let mut dec = key.dec.clone();
                    let mut s = String::with_capacity(64);
                    s.push_str("é€😀é€😀é€😀é€😀");
                    let before = s.clone();
                    let r = std::panic::catch_unwind(std::panic::AssertUnwindSafe(|| {
                        if to_string {
                            if repl {
                                let _ = dec.decode_to_string(src, &mut s, true);
                            } else {
                                let _ = dec.decode_to_string_without_replacement(src, &mut s, true);
                            }
                        } else if repl {
                            let _ = dec.decode_to_str(src, &mut s, true);
                        } else {
                            let _ = dec.decode_to_str_without_replacement(src, &mut s, true);
                        }
                    }));
                    let bytes = s.as_bytes().to_vec();
                    let valid = std::str::from_utf8(&bytes).is_ok();
                    let prefix_ok = !to_string || bytes.starts_with(before.as_bytes());
                    if !valid || !prefix_ok {
                        let call = Call::new(src, 0, true);
                        self.vio(
                            l,
                            "C05",
                            "finished-decoder-reuse-leaves-invalid-str",
                            format!("reusing a finished decoder ({}{}; panicked: {}) left the destination {}", if to_string { "decode_to_string" } else { "decode_to_str" }, if repl { "" } else { "_without_replacement" }, r.is_err(), if !valid { "invalid UTF-8" } else { "with altered prior contents" }),
                            id,
                            &call,
                        );
                    }
                    l.stats.class(if r.is_err() { "reuse-finished: panicked" } else { "reuse-finished: returned" });
                }
            }
        }
        let _ = cfg;
    }

    pub fn run(mut self) -> XOut {
        let cfg = self.cfg;
        let mut stats = Stats::new();
        stats.configs = 1;
        let mut vios = VioSet::default();
        // node 0 is a sentinel parent; node 1 the initial state
        let root = Key { dec: new_decoder(&cfg.enc, cfg.bom), rs: cfg.enc.ref_stream(cfg.bom), di: vec![], ds: vec![], rem: vec![], last: false, fin: false, tainted: false };
        let root = Arc::new(root);
        self.nodes.push(NodeMeta { parent: 0, call: Call::new(&[], 0, false), fresh: true, depth: 0 });
        self.keys.push(root.clone());
        self.nodes.push(NodeMeta { parent: 0, call: Call::new(&[], 0, false), fresh: true, depth: 0 });
        self.keys.push(root.clone());
        self.index.insert(hash_of(&*root), 1);
        let mut frontier: Vec<u32> = vec![1];
        let mut depth = 0u32;
        while !frontier.is_empty() {
            depth += 1;
            let mut items: Vec<(u32, usize, usize)> = vec![];
            let maxchunks = self.chunks.len().max(self.chunks_undecided.len()).max(self.chunks_switched.len());
            for &id in &frontier {
                let k = &self.keys[id as usize];
                if k.fin || k.in_chunk() {
                    items.push((id, 0, usize::MAX));
                } else {
                    let mut lo = 0;
                    while lo < maxchunks {
                        items.push((id, lo, lo + 32));
                        lo += 32;
                    }
                }
            }
            let mut next: Vec<u32> = vec![];
            let mut class_total = vec![0u64; 26 * 100];
            // batches bound the transient memory of a level (successors found by many workers)
            let mut stop_level = false;
            for batch in items.chunks(1536) {
                let t_par = std::time::Instant::now();
                let locals: Vec<Local> = par_map(batch, cfg.threads, |&(id, lo, hi)| {
                    // a panic here is a panic of the harness (those of the code under test are caught
                    // per call); it can be the consequence of memory corrupted by the code under test
                    match std::panic::catch_unwind(std::panic::AssertUnwindSafe(|| self.expand(id, lo, hi))) {
                        Ok(l) => l,
                        Err(e) => {
                            let mut l = Local::default();
                            l.stats = Stats::new();
                            l.vios.add(Violation { prop: "MACHINERY".into(), kind: "harness-panic".into(), msg: format!("harness panicked while expanding a state of {}: {}", self.cfg.label(), crate::imp::panic_msg(e)), replay: J::obj() });
                            l
                        }
                    }
                });
                let d_par = t_par.elapsed().as_secs_f64();
                let t_merge = std::time::Instant::now();
                let n_items = batch.len();
                for l in locals {
                    for (i, c) in l.class_counts.iter() {
                        if let Some(x) = class_total.get_mut(*i as usize) {
                            *x += c;
                        }
                    }
                    stats.merge(&l.stats);
                    vios.merge(l.vios);
                    if cfg.or.graph {
                        self.edges.extend_from_slice(&l.edges);
                    }
                    for s in l.succs {
                        let to = match s.to {
                            Ok(i) => i,
                            Err(k) => match self.index.find(s.hash, |i| *self.keys[i as usize] == *k) {
                                Some(i) => i,
                                None => {
                                    let i = self.nodes.len() as u32;
                                    if k.fin {
                                        stats.finished_states += 1;
                                    }
                                    self.nodes.push(NodeMeta { parent: s.parent, call: s.call.clone(), fresh: s.fresh, depth });
                                    self.keys.push(k.clone());
                                    self.index.insert(s.hash, i);
                                    next.push(i);
                                    i
                                }
                            },
                        };
                        if cfg.or.graph {
                            if let Some(w) = s.weight {
                                self.edges.push((s.parent, to, w));
                            }
                        }
                    }
                }
                if rss_bytes() > rss_cap_bytes() || self.nodes.len() > cfg.max_states {
                    stop_level = true;
                    break;
                }
            }
            if stop_level {
                stats.exhaustive = false;
                stats.caps_hit.push(format!("{}: stopped inside depth {} with {} states (memory cap {} GB or state cap {} reached); everything below that depth was explored completely", cfg.label(), depth, self.nodes.len(), rss_cap_bytes() >> 30, cfg.max_states));
                stats.max_depth = depth as u64;
                break;
            }
            for (i, c) in class_total.iter().enumerate() {
                if *c > 0 {
                    *stats.classes.entry(class_name(i)).or_insert(0) += c;
                }
            }
            if std::env::var("VERIF_PROF").is_ok() {
                eprintln!("level {} items {} nodes {}", depth, items.len(), self.nodes.len());
            }
            stats.max_depth = depth as u64;
            if vios.total() >= 500 {
                stats.exhaustive = false;
                stats.caps_hit.push(format!("{}: exploration stopped after depth {} because {} violations were already recorded", cfg.label(), depth, vios.total()));
                break;
            }
            if rss_bytes() > rss_cap_bytes() {
                stats.exhaustive = false;
                stats.caps_hit.push(format!("{}: stopped at depth {} with {} states because the process reached the memory cap of {} GB (VERIF_MAX_RSS_GB)", cfg.label(), depth, self.nodes.len(), rss_cap_bytes() >> 30));
                break;
            }
            if self.nodes.len() > cfg.max_states {
                stats.exhaustive = false;
                stats.caps_hit.push(format!("{}: state cap {} reached at depth {}", cfg.label(), cfg.max_states, depth));
                break;
            }
            frontier = next;
        }
        stats.states = (self.nodes.len() - 1) as u64;
        // samples: the deepest node's history
        if let Some(lastn) = self.nodes.len().checked_sub(1) {
            if lastn >= 1 {
                let p = self.path(lastn as u32);
                let calls: Vec<J> = p.iter().map(|(c, _)| c.to_json()).collect();
                stats.samples.push(J::obj().set("config", J::s(&cfg.label())).set("deepest_history", J::Arr(calls)).set("state", J::s(&format!("{} | ref {:?}", self.keys[lastn].dec.verif_fingerprint_short(), self.keys[lastn].rs.dec))));
            }
        }
        if cfg.or.graph {
            self.progress_graph(&mut stats, &mut vios);
        }
        XOut { stats, vios }
    }

    /// C08 (ii)/(iii): longest-path weights with positive-cycle detection.
    fn progress_graph(&self, stats: &mut Stats, vios: &mut VioSet) {
        // Longest path from the initial node with edge weight (calls - 4 * input consumed).
        // Relaxation stops as soon as some node exceeds the bound: that already is a history
        // with more than 4n + 16 calls (a positive cycle exceeds every bound after a few rounds).
        const BOUND: i64 = 16;
        let n = self.nodes.len();
        let mut dist: Vec<i64> = vec![i64::MIN; n];
        dist[1] = 0;
        let mut rounds = 0usize;
        let mut changed = true;
        let mut culprit: Option<(u32, i64)> = None;
        'outer: while changed {
            changed = false;
            rounds += 1;
            for &(a, b, w) in &self.edges {
                let da = dist[a as usize];
                if da == i64::MIN {
                    continue;
                }
                if da + w as i64 > dist[b as usize] {
                    dist[b as usize] = da + w as i64;
                    changed = true;
                    if dist[b as usize] > BOUND {
                        culprit = Some((b, dist[b as usize]));
                        break 'outer;
                    }
                }
            }
            if rounds > n + 2 {
                break;
            }
        }
        let maxw = dist.iter().copied().filter(|d| *d != i64::MIN).max().unwrap_or(0);
        stats.notes.push(format!("{}: progress graph {} edges, max path weight (calls - 4*read) = {}, relaxation rounds {}", self.cfg.label(), self.edges.len(), maxw, rounds));
        if let Some((c, w)) = culprit {
            let call = self.nodes[c as usize].call.clone();
            let parent = self.nodes[c as usize].parent;
            let mut l = Local::default();
            self.vio(&mut l, "C08", "linear-bound-exceeded", format!("the call graph contains a history with at least {} more calls than 4x the input it consumed (bound {}): the documented loop is not linearly bounded / need not terminate", w, BOUND), parent, &call);
            vios.merge(l.vios);
        }
    }
}

pub trait FpShort {
    fn verif_fingerprint_short(&self) -> String;
}
impl FpShort for Decoder {
    fn verif_fingerprint_short(&self) -> String {
        let s = self.verif_fingerprint();
        if s.len() > 200 {
            format!("{}…", &s[..200])
        } else {
            s
        }
    }
}

pub fn explore(cfg: &XCfg) -> XOut {
    Explorer::new(cfg).run()
}

/// Replays a recorded call list through the public API only (twice) and returns the
/// observations as JSON for comparison.
pub fn replay(j: &J) -> Result<J, String> {
    let enc = crate::spec::enc(j.get("encoding").and_then(|x| x.as_str()).ok_or("encoding")?);
    let sink = Sink::parse(j.get("sink").and_then(|x| x.as_str()).ok_or("sink")?);
    let repl = j.get("repl").and_then(|x| x.as_bool()).ok_or("repl")?;
    let bom = bom_parse(j.get("bom").and_then(|x| x.as_str()).ok_or("bom")?);
    let calls: Vec<Call> = j.get("calls").and_then(|x| x.as_arr()).ok_or("calls")?.iter().map(Call::from_json).collect();
    let render = |run: &DecRun, calls: &[Call]| -> J {
        let mut a = vec![];
        for (i, o) in run.obs.iter().enumerate() {
            let sink = calls.get(i).map(|c| c.sink(sink)).unwrap_or(sink);
            let mut cj = J::obj().set("result", J::s(&o.res.short())).set("read", J::i(o.read)).set("written", J::i(o.written)).set("out", J::s(&if sink.is_utf16() { hex16(&o.out16) } else { hex(&o.out8) })).set("had_errors", match o.had_errors {
                Some(b) => J::Bool(b),
                None => J::Null,
            });
            if matches!(sink, Sink::Str | Sink::String) {
                cj.put("whole_destination_valid_utf8_afterwards", J::Bool(!o.whole_invalid));
            }
            a.push(cj);
        }
        let canon: Vec<J> = run.obs.iter().enumerate().map(|(i, o)| J::s(&obs_canon(o, calls.get(i).map(|c| c.sink(sink)).unwrap_or(sink).is_utf16()))).collect();
        let mut r = J::obj().set("calls", J::Arr(a)).set("tokens", J::s(&toks_short(&run.toks))).set("canon", J::Arr(canon));
        if let Some((i, m)) = &run.panic {
            r.put("panic", J::obj().set("call", J::i(*i)).set("message", J::s(m)));
        }
        r
    };
    // sweep cases record the caller's chunks only ("loop": true): expand them into the calls of the
    // documented loop (same capacity, unconsumed input re-pushed until InputEmpty)
    let mut calls = calls;
    if j.get("loop").and_then(|x| x.as_bool()) == Some(true) {
        let chunks = std::mem::take(&mut calls);
        for ch in chunks {
            let mut cur = ch.clone();
            for _ in 0..4 * ch.src.len() + 64 {
                calls.push(cur.clone());
                let r = run_decoder_calls(&enc, bom, sink, repl, &calls)?;
                if r.panic.is_some() {
                    break;
                }
                let o = match r.obs.last() {
                    Some(o) => o,
                    None => break,
                };
                if o.res == Res::InputEmpty || o.read > cur.src.len() {
                    break;
                }
                cur.src = cur.src[o.read..].to_vec();
            }
        }
    }
    // what the queries answer in the state each call starts from (C07 / C19 violations are about
    // these answers, not about the calls)
    let queries = |calls: &[Call]| -> J {
        let mut dec = new_decoder(&enc, bom);
        let mut v = vec![];
        for c in calls {
            let n = c.src.len();
            let q = std::panic::catch_unwind(std::panic::AssertUnwindSafe(|| {
                format!(
                    "max_utf8_buffer_length({n})={:?} max_utf8_buffer_length_without_replacement({n})={:?} max_utf16_buffer_length({n})={:?} latin1_byte_compatible_up_to(src)={:?}",
                    dec.max_utf8_buffer_length(n),
                    dec.max_utf8_buffer_length_without_replacement(n),
                    dec.max_utf16_buffer_length(n),
                    dec.latin1_byte_compatible_up_to(&c.src)
                )
            }))
            .unwrap_or_else(|_| "panic".into());
            v.push(J::s(&q));
            let sk = c.sink(sink);
            let fill = if sk == Sink::Str { c.fill & 0x7F } else { c.fill };
            let d = Dst { cap: c.cap, fill, align: c.dalign as usize, prior: None };
            if with_aligned_src(&c.src, c.salign as usize, |s| call_decoder(&mut dec, sk, c.repl(repl), s, c.last, &d)).is_err() {
                break;
            }
        }
        J::Arr(v)
    };
    let one_shot = j.get("detail").and_then(|d| d.get("stream")).and_then(|x| x.as_str()).map(|h| unhex(h));
    let render = |run: &DecRun| {
        let mut r = render(run, &calls);
        r.put("queries_before_each_call", queries(&calls));
        if let (Some(st), BomMode::Off) = (&one_shot, bom) {
            // sweep cases also exercise the one-shot form on the whole stream
            let x = std::panic::catch_unwind(|| {
                let (t, had) = enc.imp.decode_without_bom_handling(st);
                format!("text {:?} had_errors {}", t, had)
            })
            .unwrap_or_else(|_| "panic".into());
            r.put("one_shot_decode_without_bom_handling", J::s(&x));
        }
        r
    };
    let a = run_decoder_calls(&enc, bom, sink, repl, &calls)?;
    let b = run_decoder_calls(&enc, bom, sink, repl, &calls)?;
    let (ja, jb) = (render(&a), render(&b));
    if ja != jb {
        return Err("replay is not deterministic".into());
    }
    Ok(ja)
}
