//! The documented caller loop, driven through the public API only (no clone hook).
use crate::imp::*;
use crate::spec::dec::BomMode;
use crate::spec::enc::ETok;
use crate::spec::{Enc, Tok};

#[derive(Clone, Debug, PartialEq, Eq)]
pub struct Call {
    pub src: Vec<u8>,
    pub cap: usize,
    pub last: bool,
    /// destination pre-fill
    pub fill: u8,
    /// destination / source start address modulo 16
    pub dalign: u8,
    pub salign: u8,
    /// mixed-method runs: 0 = without replacement, 1 = with replacement, 2 = the run's own mode,
    /// 4..=7 = explicit sink and mode (4 + replacement + 2 x UTF-16 sink)
    pub method: u8,
    /// &mut str sinks: exact prior content of the destination (valid UTF-8 of `cap` bytes)
    /// instead of the pre-fill byte
    pub prior: Option<String>,
}

impl Call {
    pub fn new(src: &[u8], cap: usize, last: bool) -> Call {
        Call { src: src.to_vec(), cap, last, fill: 0xA5, dalign: 0, salign: 0, method: 2, prior: None }
    }
    pub fn repl(&self, default: bool) -> bool {
        match self.method {
            0 | 4 | 6 => false,
            1 | 5 | 7 => true,
            m if m >= 8 => (m - 8) & 1 == 1,
            _ => default,
        }
    }
    /// methods 4..=7 name the sink of the call too: 4/5 = UTF-8 slice, 6/7 = UTF-16 slice;
    /// methods from 8: 8 + replacement + 2 x (0 UTF-8 slice, 1 UTF-16 slice, 2 &mut str, 3 String)
    pub fn sink(&self, default: Sink) -> Sink {
        match self.method {
            4 | 5 => Sink::Utf8,
            6 | 7 => Sink::Utf16,
            m if m >= 8 => [Sink::Utf8, Sink::Utf16, Sink::Str, Sink::String][(((m - 8) >> 1) & 3) as usize],
            _ => default,
        }
    }
    pub fn method_of(repl: bool, sink: Sink) -> u8 {
        8 + repl as u8
            + 2 * match sink {
                Sink::Utf8 => 0,
                Sink::Utf16 => 1,
                Sink::Str => 2,
                Sink::String => 3,
            }
    }
    pub fn to_json(&self) -> crate::json::J {
        use crate::json::J;
        J::obj()
            .set("src", J::s(&hex(&self.src)))
            .set("cap", J::i(self.cap))
            .set("last", J::Bool(self.last))
            .set("fill", J::i(self.fill as usize))
            .set("dalign", J::i(self.dalign as usize))
            .set("salign", J::i(self.salign as usize))
            .set("method", J::i(self.method as usize))
            .set("prior", match &self.prior {
                Some(p) => J::s(p),
                None => J::Null,
            })
    }
    pub fn from_json(j: &crate::json::J) -> Call {
        Call {
            src: unhex(j.get("src").unwrap().as_str().unwrap()),
            cap: j.get("cap").unwrap().as_i64().unwrap() as usize,
            last: j.get("last").unwrap().as_bool().unwrap(),
            fill: j.get("fill").unwrap().as_i64().unwrap() as u8,
            dalign: j.get("dalign").unwrap().as_i64().unwrap() as u8,
            salign: j.get("salign").unwrap().as_i64().unwrap() as u8,
            method: j.get("method").and_then(|x| x.as_i64()).unwrap_or(2) as u8,
            prior: j.get("prior").and_then(|x| x.as_str()).map(|x| x.to_string()),
        }
    }
}

#[derive(Clone, Debug)]
pub struct DecRun {
    pub toks: Vec<Tok>,
    pub obs: Vec<DecObs>,
    pub finished: bool,
    pub used: &'static str,
    pub any_errors: bool,
    pub total_read: usize,
    pub problems: Vec<String>,
    /// (call index, message) if a call panicked; the run stops there
    pub panic: Option<(usize, String)>,
}

fn push_obs(run: &mut DecRun, o: &DecObs, sink: Sink) {
    run.total_read += o.read;
    match scalars(o, sink) {
        Ok(v) => {
            for c in v {
                run.toks.push(Tok::Char(c));
            }
        }
        Err(m) => run.problems.push(m),
    }
    if let Res::Malformed(len, after) = o.res {
        let t = run.total_read as i64;
        run.toks.push(Tok::Err { start: t - after as i64 - len as i64, end: t - after as i64 });
        run.any_errors = true;
    }
    if o.had_errors == Some(true) {
        run.any_errors = true;
    }
    if o.guard_broken {
        run.problems.push("guard band overwritten".into());
    }
}

/// Executes exactly the given calls on a fresh decoder.
pub fn run_decoder_calls(e: &Enc, bom: BomMode, sink: Sink, repl: bool, calls: &[Call]) -> Result<DecRun, String> {
    let mut dec = new_decoder(e, bom);
    let mut run = DecRun { toks: vec![], obs: vec![], finished: false, used: e.name, any_errors: false, total_read: 0, problems: vec![], panic: None };
    for (i, c) in calls.iter().enumerate() {
        let sink = c.sink(sink);
        let fill = if sink == Sink::Str { c.fill & 0x7F } else { c.fill };
        let d = Dst { cap: c.cap, fill, align: c.dalign as usize, prior: c.prior.as_deref().filter(|p| sink == Sink::Str && p.len() == c.cap) };
        let o = match with_aligned_src(&c.src, c.salign as usize, |s| call_decoder(&mut dec, sink, c.repl(repl), s, c.last, &d)) {
            Ok(o) => o,
            Err(m) => {
                run.panic = Some((i, m));
                return Ok(run);
            }
        };
        push_obs(&mut run, &o, sink);
        if o.res == Res::InputEmpty && c.last {
            run.finished = true;
        }
        run.obs.push(o);
    }
    run.used = dec.encoding().name();
    Ok(run)
}

/// Documented loop on one chunk sequence with ample output (never OutputFull unless the
/// worst-case query lies); every chunk is pushed until InputEmpty.
pub fn decode_chunks_ample(e: &Enc, bom: BomMode, sink: Sink, repl: bool, chunks: &[&[u8]], close: bool) -> Result<DecRun, String> {
    decode_chunks_cap(e, bom, sink, repl, chunks, close, None)
}

/// Documented loop with a fixed capacity for every call (None = ample).
pub fn decode_chunks_cap(e: &Enc, bom: BomMode, sink: Sink, repl: bool, chunks: &[&[u8]], close: bool, fixed_cap: Option<usize>) -> Result<DecRun, String> {
    let mut dec = new_decoder(e, bom);
    let mut run = DecRun { toks: vec![], obs: vec![], finished: false, used: e.name, any_errors: false, total_read: 0, problems: vec![], panic: None };
    let n = chunks.len();
    for (i, ch) in chunks.iter().enumerate() {
        let last = close && i + 1 == n;
        let mut rest: &[u8] = ch;
        let mut guard = 0;
        loop {
            guard += 1;
            if guard > 4 * ch.len() + 64 {
                return Err("driver: no termination".into());
            }
            let cap = fixed_cap.unwrap_or(rest.len() * 4 + 64);
            let d = Dst { cap, fill: 0xA5 & if sink == Sink::Str { 0x7F } else { 0xFF }, align: 0, prior: None };
            let o = call_decoder(&mut dec, sink, repl, rest, last, &d)?;
            push_obs(&mut run, &o, sink);
            let r = o.read.min(rest.len());
            let res = o.res;
            run.obs.push(o);
            rest = &rest[r..];
            if res == Res::InputEmpty {
                if last {
                    run.finished = true;
                }
                break;
            }
        }
    }
    run.used = dec.encoding().name();
    Ok(run)
}

pub fn decode_stream_single(e: &Enc, bom: BomMode, sink: Sink, repl: bool, stream: &[u8]) -> Result<DecRun, String> {
    decode_chunks_ample(e, bom, sink, repl, &[stream], true)
}

/// Reference tokens rendered for comparison with a run (replacement mode folds errors).
pub fn fold_repl(toks: &[Tok]) -> Vec<Tok> {
    toks.iter().map(|t| if let Tok::Err { .. } = t { Tok::Char(0xFFFD) } else { *t }).collect()
}

pub fn toks_short(toks: &[Tok]) -> String {
    let mut s = String::new();
    for t in toks {
        match t {
            Tok::Char(c) => s.push_str(&format!("U+{:04X} ", c)),
            Tok::Err { start, end } => s.push_str(&format!("Err[{},{}) ", start, end)),
        }
    }
    s.trim_end().to_string()
}

// ---------------------------------------------------------------------------------------------
// Encoders

#[derive(Clone, Debug, PartialEq, Eq)]
pub struct ECall {
    /// scalar values or, for UTF-16 sources, code units (may contain unpaired surrogates)
    pub units: Vec<u32>,
    pub cap: usize,
    pub last: bool,
}

#[derive(Clone, Debug)]
pub struct EncRun {
    pub toks: Vec<ETok>,
    pub obs: Vec<EncObs>,
    pub finished: bool,
    pub any_unmappable: bool,
    pub problems: Vec<String>,
}

pub fn units_to_utf8(units: &[u32]) -> String {
    units.iter().map(|&c| char::from_u32(c).expect("scalar in UTF-8 source")).collect()
}
pub fn units_to_utf16(units: &[u32]) -> Vec<u16> {
    let mut v = vec![];
    for &c in units {
        if c >= 0x10000 {
            let c = c - 0x10000;
            v.push(0xD800 + (c >> 10) as u16);
            v.push(0xDC00 + (c & 0x3FF) as u16);
        } else {
            v.push(c as u16);
        }
    }
    v
}

fn push_eobs(run: &mut EncRun, o: &EncObs) {
    for &b in &o.out {
        run.toks.push(ETok::Byte(b));
    }
    if let ERes::Unmappable(c) = o.res {
        run.toks.push(ETok::Unmappable(c));
        run.any_unmappable = true;
    }
    if o.had_unmappables == Some(true) {
        run.any_unmappable = true;
    }
    if o.guard_broken {
        run.problems.push("guard band overwritten".into());
    }
}

/// Documented loop for an encoder over whole-text chunks (given as UTF-8 strs or UTF-16 unit
/// vectors) with ample output.
pub fn encode_chunks_ample(e: &Enc, source: Source, repl: bool, chunks8: &[&str], chunks16: &[&[u16]], close: bool) -> Result<EncRun, String> {
    encode_chunks_cap(e, source, repl, chunks8, chunks16, close, None)
}

pub fn encode_chunks_cap(e: &Enc, source: Source, repl: bool, chunks8: &[&str], chunks16: &[&[u16]], close: bool, fixed_cap: Option<usize>) -> Result<EncRun, String> {
    let mut enc = e.imp.new_encoder();
    let mut run = EncRun { toks: vec![], obs: vec![], finished: false, any_unmappable: false, problems: vec![] };
    let n = if source == Source::Utf8 { chunks8.len() } else { chunks16.len() };
    for i in 0..n {
        let last = close && i + 1 == n;
        let mut rest8: &str = if source == Source::Utf8 { chunks8[i] } else { "" };
        let mut rest16: &[u16] = if source == Source::Utf16 { chunks16[i] } else { &[] };
        let mut guard = 0;
        loop {
            guard += 1;
            let len = rest8.len() + rest16.len();
            if guard > 4 * len + 64 {
                return Err("driver: no termination".into());
            }
            let cap = fixed_cap.unwrap_or(len * 12 + 64);
            let d = Dst { cap, fill: 0xA5, align: 0, prior: None };
            let o = call_encoder(&mut enc, source, ESink::Slice, repl, rest8, rest16, last, &d)?;
            push_eobs(&mut run, &o);
            let res = o.res;
            if source == Source::Utf8 {
                if !rest8.is_char_boundary(o.read.min(rest8.len())) || o.read > rest8.len() {
                    return Err(format!("read {} not on a char boundary / out of range", o.read));
                }
                rest8 = &rest8[o.read..];
            } else {
                if o.read > rest16.len() {
                    return Err(format!("read {} out of range", o.read));
                }
                rest16 = &rest16[o.read..];
            }
            run.obs.push(o);
            if res == ERes::InputEmpty {
                if last {
                    run.finished = true;
                }
                break;
            }
        }
    }
    Ok(run)
}

pub fn etoks_short(toks: &[ETok]) -> String {
    let mut s = String::new();
    for t in toks {
        match t {
            ETok::Byte(b) => s.push_str(&format!("{:02X} ", b)),
            ETok::Unmappable(c) => s.push_str(&format!("Unmappable(U+{:04X}) ", c)),
        }
    }
    s.trim_end().to_string()
}

/// Reference tokens for a text given as scalar values.
pub fn ref_encode_all(e: &Enc, scalars: &[u32], close: bool) -> Vec<ETok> {
    let mut r = e.ref_encoder();
    let mut out = vec![];
    for &c in scalars {
        r.push(c, &mut out);
    }
    if close {
        r.finish(&mut out);
    }
    out
}

/// Replacement rendering of reference tokens.
pub fn fold_ncr(toks: &[ETok]) -> Vec<ETok> {
    let mut v = vec![];
    for t in toks {
        match t {
            ETok::Byte(_) => v.push(*t),
            ETok::Unmappable(c) => {
                for b in crate::spec::enc::ncr(*c) {
                    v.push(ETok::Byte(b));
                }
            }
        }
    }
    v
}

/// UTF-16 source semantics: every unpaired surrogate is U+FFFD.
pub fn utf16_to_scalars(units: &[u16]) -> Vec<u32> {
    char::decode_utf16(units.iter().copied()).map(|r| r.map(|c| c as u32).unwrap_or(0xFFFD)).collect()
}
