//! Shared result types of the explorers and sweeps.
use crate::json::J;
use std::collections::BTreeMap;

#[derive(Clone, Debug)]
pub struct Violation {
    pub prop: String,
    /// short stable kind, used for de-duplication and for known-findings matching
    pub kind: String,
    pub msg: String,
    /// run configuration and minimal call list / input
    pub replay: J,
}

#[derive(Clone, Debug, Default)]
pub struct Stats {
    pub configs: u64,
    pub states: u64,
    pub transitions: u64,
    pub finished_states: u64,
    pub max_depth: u64,
    pub evaluations: u64,
    pub nontrivial: u64,
    pub classes: BTreeMap<String, u64>,
    pub samples: Vec<J>,
    pub exhaustive: bool,
    pub caps_hit: Vec<String>,
    pub notes: Vec<String>,
    /// violations of other properties observed while this oracle set ran (not reported here)
    pub suppressed: BTreeMap<String, u64>,
    /// C17: order-independent digests (wrapping sums of per-case FNV hashes) of the logical
    /// outputs, per shard
    pub digests: BTreeMap<String, u64>,
}

impl Stats {
    pub fn new() -> Stats {
        Stats { exhaustive: true, ..Default::default() }
    }
    pub fn class(&mut self, k: &str) {
        *self.classes.entry(k.to_string()).or_insert(0) += 1;
    }
    pub fn merge(&mut self, o: &Stats) {
        self.configs += o.configs;
        self.states += o.states;
        self.transitions += o.transitions;
        self.finished_states += o.finished_states;
        self.max_depth = self.max_depth.max(o.max_depth);
        self.evaluations += o.evaluations;
        self.nontrivial += o.nontrivial;
        for (k, v) in &o.classes {
            *self.classes.entry(k.clone()).or_insert(0) += v;
        }
        for s in &o.samples {
            if self.samples.len() < 12 {
                self.samples.push(s.clone());
            }
        }
        self.exhaustive &= o.exhaustive;
        self.caps_hit.extend(o.caps_hit.iter().cloned());
        for n in &o.notes {
            if self.notes.len() < 40 {
                self.notes.push(n.clone());
            }
        }
        for (k, v) in &o.suppressed {
            *self.suppressed.entry(k.clone()).or_insert(0) += v;
        }
        for (k, v) in &o.digests {
            let e = self.digests.entry(k.clone()).or_insert(0);
            *e = e.wrapping_add(*v);
        }
    }
    pub fn dig(&mut self, shard: &str, f: Fnv) {
        let h = f.finish();
        match self.digests.get_mut(shard) {
            Some(e) => *e = e.wrapping_add(h),
            None => {
                self.digests.insert(shard.to_string(), h);
            }
        }
        transcript(shard, h);
    }
}

/// Collects violations, keeping the first few of every (prop, kind).
#[derive(Clone, Debug, Default)]
pub struct VioSet {
    pub list: Vec<Violation>,
    pub counts: BTreeMap<(String, String), u64>,
}

impl VioSet {
    pub const KEEP: u64 = 3;
    pub fn wants(&self, prop: &str, kind: &str) -> bool {
        self.counts.get(&(prop.to_string(), kind.to_string())).copied().unwrap_or(0) < Self::KEEP
    }
    pub fn add(&mut self, v: Violation) {
        let c = self.counts.entry((v.prop.clone(), v.kind.clone())).or_insert(0);
        *c += 1;
        if *c <= Self::KEEP {
            self.list.push(v);
        }
    }
    pub fn count_only(&mut self, prop: &str, kind: &str) {
        *self.counts.entry((prop.to_string(), kind.to_string())).or_insert(0) += 1;
    }
    pub fn merge(&mut self, o: VioSet) {
        for v in o.list {
            let c = self.counts.entry((v.prop.clone(), v.kind.clone())).or_insert(0);
            if *c < Self::KEEP {
                self.list.push(v);
            }
            *c += 1;
        }
        // counts beyond the kept ones
        for (k, n) in o.counts {
            let kept = self.list.iter().filter(|v| v.prop == k.0 && v.kind == k.1).count() as u64;
            let c = self.counts.entry(k).or_insert(0);
            if n > *c {
                *c = n.max(kept);
            }
        }
    }
    pub fn total(&self) -> u64 {
        self.counts.values().sum()
    }
}

/// Runs `f` over items in parallel (dynamic chunks), results in item order.
pub fn par_map<T: Sync, R: Send>(items: &[T], threads: usize, f: impl Fn(&T) -> R + Sync) -> Vec<R> {
    use std::sync::atomic::{AtomicUsize, Ordering};
    use std::sync::Mutex;
    if threads <= 1 || items.len() <= 1 {
        return items.iter().map(|x| f(x)).collect();
    }
    let next = AtomicUsize::new(0);
    let out: Mutex<Vec<Option<R>>> = Mutex::new((0..items.len()).map(|_| None).collect());
    std::thread::scope(|s| {
        for _ in 0..threads.min(items.len()) {
            s.spawn(|| loop {
                let i = next.fetch_add(1, Ordering::Relaxed);
                if i >= items.len() {
                    break;
                }
                let r = f(&items[i]);
                out.lock().unwrap()[i] = Some(r);
            });
        }
    });
    out.into_inner().unwrap().into_iter().map(|x| x.unwrap()).collect()
}

/// Index from a pre-computed 64-bit hash to node ids; equality is decided on the full keys.
#[derive(Default)]
pub struct HashIndex {
    map: std::collections::HashMap<u64, Vec<u32>, std::hash::BuildHasherDefault<IdHasher>>,
}

#[derive(Default)]
pub struct IdHasher(u64);
impl std::hash::Hasher for IdHasher {
    fn finish(&self) -> u64 {
        self.0
    }
    fn write(&mut self, bytes: &[u8]) {
        for &b in bytes {
            self.0 = (self.0 << 8) | b as u64;
        }
    }
    fn write_u64(&mut self, i: u64) {
        self.0 = i;
    }
}

impl HashIndex {
    pub fn new() -> HashIndex {
        HashIndex::default()
    }
    pub fn find(&self, h: u64, eq: impl Fn(u32) -> bool) -> Option<u32> {
        self.map.get(&h).and_then(|v| v.iter().copied().find(|&i| eq(i)))
    }
    pub fn insert(&mut self, h: u64, id: u32) {
        self.map.entry(h).or_default().push(id);
    }
}

pub fn hash_of<T: std::hash::Hash>(t: &T) -> u64 {
    use std::hash::Hasher;
    let mut h = std::collections::hash_map::DefaultHasher::new();
    t.hash(&mut h);
    h.finish()
}

/// FNV-1a over an explicit serialisation (independent of std's Hash implementations, so that
/// digests are comparable across toolchains).
#[derive(Clone, Copy)]
pub struct Fnv(pub u64);
impl Fnv {
    pub fn new() -> Fnv {
        Fnv(0xcbf29ce484222325)
    }
    #[inline]
    pub fn b(mut self, x: u8) -> Fnv {
        self.0 ^= x as u64;
        self.0 = self.0.wrapping_mul(0x100000001b3);
        self
    }
    pub fn bytes(mut self, x: &[u8]) -> Fnv {
        for &b in x {
            self = self.b(b);
        }
        self.b(0xFE)
    }
    pub fn u(mut self, x: u64) -> Fnv {
        for i in 0..8 {
            self = self.b((x >> (8 * i)) as u8);
        }
        self
    }
    pub fn u16s(mut self, x: &[u16]) -> Fnv {
        for &u in x {
            self = self.b(u as u8).b((u >> 8) as u8);
        }
        self.b(0xFD)
    }
    pub fn s(self, x: &str) -> Fnv {
        self.bytes(x.as_bytes())
    }
    pub fn finish(self) -> u64 {
        // avalanche a little so that sums do not cancel systematically
        let mut h = self.0;
        h ^= h >> 33;
        h = h.wrapping_mul(0xff51afd7ed558ccd);
        h ^= h >> 33;
        h
    }
}

/// Transcript mode (C17 localisation): VERIF_TRANSCRIPT_SHARD=<shard> VERIF_TRANSCRIPT_OUT=<file>
/// appends one line per case of that shard; `describe` is set by the caller beforehand.
pub fn transcript(shard: &str, h: u64) {
    use std::sync::OnceLock;
    static CFG: OnceLock<Option<(String, std::sync::Mutex<std::fs::File>)>> = OnceLock::new();
    let cfg = CFG.get_or_init(|| {
        let s = std::env::var("VERIF_TRANSCRIPT_SHARD").ok()?;
        let o = std::env::var("VERIF_TRANSCRIPT_OUT").ok()?;
        let f = std::fs::File::create(o).ok()?;
        Some((s, std::sync::Mutex::new(f)))
    });
    if let Some((s, f)) = cfg {
        if s == shard {
            use std::io::Write;
            let d = DESCR.with(|d| d.borrow().clone());
            let _ = writeln!(f.lock().unwrap(), "{:016x}\t{}", h, d);
        }
    }
}
thread_local! {
    pub static DESCR: std::cell::RefCell<String> = std::cell::RefCell::new(String::new());
}
pub fn transcript_on() -> bool {
    use std::sync::OnceLock;
    static ON: OnceLock<bool> = OnceLock::new();
    *ON.get_or_init(|| std::env::var("VERIF_TRANSCRIPT_SHARD").is_ok())
}
pub fn describe(f: impl FnOnce() -> String) {
    if transcript_on() {
        let s = f();
        DESCR.with(|d| *d.borrow_mut() = s);
    }
}

/// Resident set size of this process in bytes (0 if unknown).
pub fn rss_bytes() -> u64 {
    std::fs::read_to_string("/proc/self/statm").ok().and_then(|s| s.split_whitespace().nth(1).and_then(|x| x.parse::<u64>().ok())).map(|pages| pages * 4096).unwrap_or(0)
}

/// Memory cap for the engines (all concurrently running explorations share the process).
pub fn rss_cap_bytes() -> u64 {
    std::env::var("VERIF_MAX_RSS_GB").ok().and_then(|s| s.parse::<u64>().ok()).unwrap_or(24) * (1 << 30)
}
