//! Shared result types of the explorers and sweeps.
use crate::json::J;
use std::collections::BTreeMap;

#[derive(Clone, Debug)]
pub struct Violation {
    pub prop: String,
    /// short stable kind, used for de-duplication and for known-findings matching
    pub kind: String,
    pub msg: String,
    /// run configuration and minimal call list / input
    pub replay: J,
}

#[derive(Clone, Debug, Default)]
pub struct Stats {
    pub configs: u64,
    pub states: u64,
    pub transitions: u64,
    pub finished_states: u64,
    pub max_depth: u64,
    pub evaluations: u64,
    pub nontrivial: u64,
    pub classes: BTreeMap<String, u64>,
    pub samples: Vec<J>,
    pub exhaustive: bool,
    pub caps_hit: Vec<String>,
    pub notes: Vec<String>,
    /// violations of other properties observed while this oracle set ran (not reported here)
    pub suppressed: BTreeMap<String, u64>,
}

impl Stats {
    pub fn new() -> Stats {
        Stats { exhaustive: true, ..Default::default() }
    }
    pub fn class(&mut self, k: &str) {
        *self.classes.entry(k.to_string()).or_insert(0) += 1;
    }
    pub fn merge(&mut self, o: &Stats) {
        self.configs += o.configs;
        self.states += o.states;
        self.transitions += o.transitions;
        self.finished_states += o.finished_states;
        self.max_depth = self.max_depth.max(o.max_depth);
        self.evaluations += o.evaluations;
        self.nontrivial += o.nontrivial;
        for (k, v) in &o.classes {
            *self.classes.entry(k.clone()).or_insert(0) += v;
        }
        for s in &o.samples {
            if self.samples.len() < 12 {
                self.samples.push(s.clone());
            }
        }
        self.exhaustive &= o.exhaustive;
        self.caps_hit.extend(o.caps_hit.iter().cloned());
        for n in &o.notes {
            if self.notes.len() < 40 {
                self.notes.push(n.clone());
            }
        }
        for (k, v) in &o.suppressed {
            *self.suppressed.entry(k.clone()).or_insert(0) += v;
        }
    }
}

/// Collects violations, keeping the first few of every (prop, kind).
#[derive(Clone, Debug, Default)]
pub struct VioSet {
    pub list: Vec<Violation>,
    pub counts: BTreeMap<(String, String), u64>,
}

impl VioSet {
    pub const KEEP: u64 = 3;
    pub fn wants(&self, prop: &str, kind: &str) -> bool {
        self.counts.get(&(prop.to_string(), kind.to_string())).copied().unwrap_or(0) < Self::KEEP
    }
    pub fn add(&mut self, v: Violation) {
        let c = self.counts.entry((v.prop.clone(), v.kind.clone())).or_insert(0);
        *c += 1;
        if *c <= Self::KEEP {
            self.list.push(v);
        }
    }
    pub fn count_only(&mut self, prop: &str, kind: &str) {
        *self.counts.entry((prop.to_string(), kind.to_string())).or_insert(0) += 1;
    }
    pub fn merge(&mut self, o: VioSet) {
        for v in o.list {
            let c = self.counts.entry((v.prop.clone(), v.kind.clone())).or_insert(0);
            if *c < Self::KEEP {
                self.list.push(v);
            }
            *c += 1;
        }
        // counts beyond the kept ones
        for (k, n) in o.counts {
            let kept = self.list.iter().filter(|v| v.prop == k.0 && v.kind == k.1).count() as u64;
            let c = self.counts.entry(k).or_insert(0);
            if n > *c {
                *c = n.max(kept);
            }
        }
    }
    pub fn total(&self) -> u64 {
        self.counts.values().sum()
    }
}

/// Runs `f` over items in parallel (dynamic chunks), results in item order.
pub fn par_map<T: Sync, R: Send>(items: &[T], threads: usize, f: impl Fn(&T) -> R + Sync) -> Vec<R> {
    use std::sync::atomic::{AtomicUsize, Ordering};
    use std::sync::Mutex;
    if threads <= 1 || items.len() <= 1 {
        return items.iter().map(|x| f(x)).collect();
    }
    let next = AtomicUsize::new(0);
    let out: Mutex<Vec<Option<R>>> = Mutex::new((0..items.len()).map(|_| None).collect());
    std::thread::scope(|s| {
        for _ in 0..threads.min(items.len()) {
            s.spawn(|| loop {
                let i = next.fetch_add(1, Ordering::Relaxed);
                if i >= items.len() {
                    break;
                }
                let r = f(&items[i]);
                out.lock().unwrap()[i] = Some(r);
            });
        }
    });
    out.into_inner().unwrap().into_iter().map(|x| x.unwrap()).collect()
}
