//! Per-property plans: which engine runs with which configuration in which tier.
use crate::alphabet;
use crate::imp::Sink;
use crate::spec::dec::BomMode;
use crate::spec::{self, Enc, Kind};
use crate::x::*;
use crate::imp::{ESink, Source};
use crate::xdec::{self, Oracles, XCfg};
use crate::xenc::{self, ECfg, EOracles};

#[derive(Clone, Copy, PartialEq, Eq, Debug)]
pub enum Tier {
    Quick,
    Thorough,
}

pub struct CheckOut {
    pub level: &'static str,
    pub stats: Stats,
    pub vios: VioSet,
    pub rule: String,
    pub assumptions: Vec<String>,
    pub technique: String,
}

pub const QUICK_ENCS: [&str; 15] = [
    "Big5",
    "EUC-KR",
    "Shift_JIS",
    "EUC-JP",
    "gb18030",
    "GBK",
    "ISO-2022-JP",
    "UTF-8",
    "UTF-16LE",
    "UTF-16BE",
    "replacement",
    "x-user-defined",
    "windows-1252",
    "windows-874",
    "windows-1253",
];

fn heavy(e: &Enc) -> bool {
    matches!(e.kind, Kind::Utf8 | Kind::Gb18030 | Kind::Gbk | Kind::Iso2022Jp | Kind::Utf16Be | Kind::Utf16Le)
}

pub struct DecPlanItem {
    pub enc: &'static str,
    pub sink: Sink,
    pub repl: bool,
    pub bom: BomMode,
    pub k: usize,
    pub words: bool,
    pub runs: Vec<usize>,
    pub full: bool,
    pub few_caps: bool,
    pub mixed: bool,
    /// explicit per-call method set (implies mixed)
    pub methods: Vec<(bool, Sink)>,
}

pub fn mk_cfg(it: &DecPlanItem, or: &Oracles, tag_chunk: &'static str, tag_single: &'static str, threads: usize) -> XCfg {
    let e = spec::enc(it.enc);
    let syms = if it.full { alphabet::full_bytes() } else { alphabet::dec_syms(&e, false, it.words, &it.runs) };
    let (syms_undecided, syms_switched) = if it.bom != BomMode::Off { (alphabet::bom_syms(it.words), alphabet::switched_syms()) } else { (vec![], vec![]) };
    XCfg {
        enc: e,
        sink: it.sink,
        repl: it.repl,
        bom: it.bom,
        syms,
        syms_undecided,
        syms_switched,
        k: it.k,
        or: or.clone(),
        threads,
        max_states: 4_000_000,
        tag_chunk,
        tag_single,
        few_caps: it.few_caps,
        mixed: it.mixed || !it.methods.is_empty(),
        mixed_sink: it.mixed && it.methods.is_empty() && matches!(it.sink, Sink::Utf8 | Sink::Utf16),
        methods: it.methods.clone(),
    }
}

/// Runs a list of configurations: light ones concurrently, heavy ones with inner parallelism.
pub fn run_dec_plan(items: Vec<DecPlanItem>, or: &Oracles, tag_chunk: &'static str, tag_single: &'static str) -> (Stats, VioSet) {
    let mut stats = Stats::new();
    let mut vios = VioSet::default();
    let (heavy_items, light_items): (Vec<_>, Vec<_>) = items.into_iter().partition(|it| heavy(&spec::enc(it.enc)) || it.full);
    // heavy: 4 at a time with 4 inner threads
    let cfgs: Vec<XCfg> = heavy_items.iter().map(|it| mk_cfg(it, or, tag_chunk, tag_single, 4)).collect();
    let outs = par_map(&cfgs, 4, |c| xdec::explore(c));
    for (c, o) in cfgs.iter().zip(outs) {
        absorb(&mut stats, &mut vios, &c.label(), o);
    }
    let cfgs: Vec<XCfg> = light_items.iter().map(|it| mk_cfg(it, or, tag_chunk, tag_single, if it.k >= 3 { 3 } else { 1 })).collect();
    let width = if cfgs.iter().any(|c| c.k >= 3) { 6 } else { 16 };
    let outs = par_map(&cfgs, width, |c| xdec::explore(c));
    for (c, o) in cfgs.iter().zip(outs) {
        absorb(&mut stats, &mut vios, &c.label(), o);
    }
    (stats, vios)
}

fn absorb(stats: &mut Stats, vios: &mut VioSet, label: &str, o: xdec::XOut) {
    if stats.notes.len() < 400 {
        stats.notes.push(format!("{}: states {} transitions {} depth {}", label, o.stats.states, o.stats.transitions, o.stats.max_depth));
    }
    stats.merge(&o.stats);
    vios.merge(o.vios);
}

fn item(enc: &'static str, sink: Sink, repl: bool, bom: BomMode, k: usize, runs: &[usize]) -> DecPlanItem {
    DecPlanItem { enc, sink, repl, bom, k, words: true, runs: runs.to_vec(), full: false, few_caps: false, mixed: false, methods: vec![] }
}

fn full_item(enc: &'static str, sink: Sink, repl: bool, k: usize) -> DecPlanItem {
    DecPlanItem { enc, sink, repl, bom: BomMode::Off, k, words: false, runs: vec![], full: true, few_caps: true, mixed: false, methods: vec![] }
}

/// decoders that carry output or method-dependent state from one call to the next
const MIXED_QUICK: [&str; 7] = ["UTF-16LE", "UTF-16BE", "gb18030", "ISO-2022-JP", "EUC-JP", "UTF-8", "Big5"];
const ALL_SINKS: [Sink; 4] = [Sink::Utf8, Sink::Utf16, Sink::Str, Sink::String];
const SLICE_SINKS: [Sink; 2] = [Sink::Utf8, Sink::Utf16];
const ALL_BOMS: [BomMode; 3] = [BomMode::Off, BomMode::Sniff, BomMode::Remove];

fn single_byte_reps() -> Vec<&'static str> {
    vec!["windows-1252", "windows-874", "windows-1253", "ISO-8859-8"]
}

/// Plan for the decoder explorer, by property and tier.
pub fn dec_plan(prop: &str, tier: Tier) -> Vec<DecPlanItem> {
    let mut v = vec![];
    let q = tier == Tier::Quick;
    let encs: Vec<&'static str> = if q { QUICK_ENCS.to_vec() } else { spec::NAMES.to_vec() };
    let runs_q: &[usize] = &[16, 17];
    let runs_t: &[usize] = &[15, 16, 17, 31, 32, 33, 48];
    let runs = if q { runs_q } else { runs_t };
    // chunk bound: thorough raises it for the non-heavy encodings
    let k_of = |_name: &'static str| -> usize { 2 };
    match prop {
        "C01" => {
            // single-call classification over the streams the explorer spells
            for &e in &encs {
                v.push(item(e, Sink::Utf8, false, BomMode::Off, k_of(e), &[]));
                if !q {
                    v.push(item(e, Sink::Utf16, true, BomMode::Off, k_of(e), &[]));
                }
            }
        }
        "C02" => {
            for &e in &encs {
                for s in if q { SLICE_SINKS.to_vec() } else { ALL_SINKS.to_vec() } {
                    for repl in [false, true] {
                        v.push(item(e, s, repl, BomMode::Off, 2, runs));
                    }
                }
                v.push(item(e, Sink::Utf8, false, BomMode::Sniff, 2, &[16]));
                if q && MIXED_QUICK.contains(&e) {
                    let mut it = item(e, Sink::Utf8, false, BomMode::Off, 2, &[]);
                    it.mixed = true;
                    v.push(it);
                }
                if !q {
                    let mut it = item(e, Sink::Utf8, false, BomMode::Off, 2, &[]);
                    it.mixed = true;
                    v.push(it);
                    v.push(item(e, Sink::Utf16, true, BomMode::Sniff, 2, &[16]));
                    v.push(item(e, Sink::Utf8, true, BomMode::Remove, 2, &[16]));
                }
            }
            if !q {
                // thorough-A3: chunks of up to three symbols over the single-byte class alphabet
                for e in QUICK_ENCS {
                    for (s, repl) in [(Sink::Utf8, false), (Sink::Utf16, true), (Sink::Utf8, true), (Sink::Utf16, false)] {
                        let mut it = item(e, s, repl, BomMode::Off, 3, &[]);
                        it.words = false;
                        it.few_caps = true;
                        v.push(it);
                    }
                }
                // thorough-B: full byte alphabet on the resumed paths
                // (one byte per buffer: every pair / triple / quadruple of byte values meets every
                // buffer boundary; whole pairs inside one buffer are the C01 sweep's)
                for e in ["Big5", "EUC-KR", "Shift_JIS", "EUC-JP", "ISO-2022-JP", "windows-1252", "windows-874", "x-user-defined", "UTF-16LE", "UTF-16BE", "replacement"] {
                    v.push(full_item(e, Sink::Utf8, false, 1));
                    v.push(full_item(e, Sink::Utf16, true, 1));
                }
                for e in ["gb18030", "UTF-8"] {
                    v.push(full_item(e, Sink::Utf8, false, 1));
                    v.push(full_item(e, Sink::Utf16, false, 1));
                }
            }
        }
        "C05" => {
            for &e in &encs {
                for repl in [false, true] {
                    v.push(item(e, Sink::Str, repl, BomMode::Off, if q { 1 } else { 2 }, &[16]));
                    v.push(item(e, Sink::String, repl, BomMode::Off, 2, &[16]));
                }
                v.push(item(e, Sink::Utf8, true, BomMode::Off, 2, runs));
                v.push(item(e, Sink::Utf16, true, BomMode::Off, 2, runs));
                v.push(item(e, Sink::Str, true, BomMode::Sniff, 1, &[]));
                // the safe receivers in states that other methods left behind
                if !q || MIXED_QUICK.contains(&e) {
                    let mut it = item(e, Sink::Str, true, BomMode::Off, 2, &[]);
                    it.methods = vec![(true, Sink::Str), (false, Sink::Str), (false, Sink::String), (false, Sink::Utf16)];
                    v.push(it);
                }
            }
        }
        "C06" => {
            for &e in &encs {
                // slices: both modes, runs that straddle one and two strides; String/str: one mode each
                v.push(item(e, Sink::Utf8, false, BomMode::Off, 2, if q { &[16, 33] } else { runs_t }));
                v.push(item(e, Sink::Utf16, true, BomMode::Off, 2, if q { &[17] } else { runs_t }));
                v.push(item(e, Sink::Str, true, BomMode::Off, if q { 1 } else { 2 }, &[16]));
                v.push(item(e, Sink::String, false, BomMode::Off, if q { 1 } else { 2 }, &[16]));
                v.push(item(e, Sink::Utf8, true, BomMode::Sniff, 2, &[]));
                if !q || MIXED_QUICK.contains(&e) {
                    let mut it = item(e, Sink::Utf16, false, BomMode::Off, 2, &[]);
                    it.mixed = true;
                    v.push(it);
                }
                if !q {
                    v.push(item(e, Sink::Utf8, true, BomMode::Off, 2, runs_t));
                    v.push(item(e, Sink::Utf16, false, BomMode::Off, 2, runs_t));
                    v.push(item(e, Sink::Str, false, BomMode::Off, 2, &[16]));
                    v.push(item(e, Sink::String, true, BomMode::Off, 2, &[16]));
                    v.push(item(e, Sink::Utf8, false, BomMode::Sniff, 2, &[]));
                    v.push(item(e, Sink::Utf16, false, BomMode::Sniff, 2, &[]));
                }
            }
        }
        "C07" => {
            for &e in &encs {
                for b in ALL_BOMS {
                    if b == BomMode::Remove && !matches!(spec::enc(e).kind, Kind::Utf8 | Kind::Utf16Be | Kind::Utf16Le) {
                        continue;
                    }
                    v.push(item(e, Sink::Utf8, false, b, k_of(e), &[16]));
                    v.push(item(e, Sink::Utf8, true, b, k_of(e), &[16]));
                    v.push(item(e, Sink::Utf16, false, b, k_of(e), &[16]));
                }
                // mixed-method runs: the query of one method family in a state reached through the other
                {
                    let mut it = item(e, Sink::Utf8, false, BomMode::Off, 2, &[]);
                    it.mixed = true;
                    v.push(it);
                }
                // ... and with a withheld BOM prefix replayed by one method and queried for another
                let mut it = item(e, Sink::Utf16, false, BomMode::Sniff, 2, &[]);
                it.mixed = true;
                v.push(it);
            }
        }
        "C08" => {
            for &e in &encs {
                for s in SLICE_SINKS {
                    for repl in [false, true] {
                        v.push(item(e, s, repl, BomMode::Off, 2, &[16]));
                    }
                }
                v.push(item(e, Sink::Utf8, true, BomMode::Sniff, 2, &[]));
                v.push(item(e, Sink::Utf16, false, BomMode::Sniff, 2, &[]));
                // what one method leaves pending must not stall another method's minimum buffer
                if !q || MIXED_QUICK.contains(&e) {
                    let mut it = item(e, Sink::Utf8, false, BomMode::Off, 2, &[]);
                    it.mixed = true;
                    v.push(it);
                }
            }
        }
        "C09" => {
            for &e in &encs {
                for s in SLICE_SINKS {
                    v.push(item(e, s, true, BomMode::Off, 2, &[16]));
                }
                v.push(item(e, Sink::Utf8, true, BomMode::Sniff, 2, &[]));
                if !q {
                    v.push(item(e, Sink::Str, true, BomMode::Off, 2, &[16]));
                    v.push(item(e, Sink::String, true, BomMode::Off, 2, &[16]));
                }
            }
        }
        "C10" => {
            // all 40 nominal encodings x 3 modes in both tiers (single-byte runs are tiny)
            for &e in spec::NAMES.iter() {
                for b in ALL_BOMS {
                    let kk = 2;
                    v.push(item(e, Sink::Utf8, false, b, kk, &[]));
                    v.push(item(e, Sink::Utf16, true, b, kk, &[]));
                    if !q {
                        v.push(item(e, Sink::Utf8, true, b, 2, &[]));
                        v.push(item(e, Sink::Utf16, false, b, 2, &[]));
                    }
                }
            }
        }
        "C18" => {
            for &e in &encs {
                for s in ALL_SINKS {
                    for repl in [false, true] {
                        if q && repl && (s == Sink::Str || s == Sink::String) {
                            continue;
                        }
                        v.push(item(e, s, repl, BomMode::Off, 2, &[16]));
                    }
                }
                v.push(item(e, Sink::Utf8, true, BomMode::Sniff, 2, &[]));
            }
        }
        "C19" => {
            for &e in spec::NAMES.iter() {
                for b in ALL_BOMS {
                    if b == BomMode::Remove && !matches!(spec::enc(e).kind, Kind::Utf8 | Kind::Utf16Be | Kind::Utf16Le) {
                        continue;
                    }
                    v.push(item(e, Sink::Utf16, false, b, 2, &[]));
                }
            }
        }
        _ => panic!("no decoder plan for {}", prop),
    }
    if !q && matches!(prop, "C07" | "C08" | "C09" | "C10") {
        for e in QUICK_ENCS {
            for (s, repl) in [(Sink::Utf8, true), (Sink::Utf16, false), (Sink::Utf8, false), (Sink::Utf16, true)] {
                if prop == "C09" && !repl {
                    continue;
                }
                let mut it = item(e, s, repl, if prop == "C10" { BomMode::Sniff } else { BomMode::Off }, 3, &[]);
                it.words = false;
                it.few_caps = prop != "C07";
                v.push(it);
            }
        }
    }
    let _ = single_byte_reps();
    // after a crash of the harness process (a subject that corrupts the heap through a String /
    // Vec receiver): slice sinks only, where guard bands catch and attribute the stray write
    if slice_sinks_only() {
        v.retain(|it| matches!(it.sink, Sink::Utf8 | Sink::Utf16) && it.methods.is_empty());
    }
    // quick tier in the simd-accel build: the decoders with SIMD-specific code, longer runs
    if simd_subset() {
        v.retain(|it| SIMD_SUBSET_DECODERS.contains(&it.enc));
        for it in v.iter_mut() {
            if !it.runs.is_empty() {
                it.runs = vec![16, 17, 33, 48];
            }
        }
    }
    v
}

pub fn slice_sinks_only() -> bool {
    std::env::var("VERIF_SLICE_SINKS_ONLY").map(|v| v == "1").unwrap_or(false)
}
pub fn simd_subset() -> bool {
    std::env::var("VERIF_SIMD_SUBSET").map(|v| v == "1").unwrap_or(false)
}
const SIMD_SUBSET_DECODERS: [&str; 6] = ["UTF-16LE", "UTF-16BE", "x-user-defined", "windows-1252", "UTF-8", "Shift_JIS"];
const SIMD_SUBSET_ENCODERS: [&str; 4] = ["windows-1252", "UTF-8", "x-user-defined", "Shift_JIS"];

pub fn dec_oracles(prop: &str, tier: Tier) -> Oracles {
    let mut or = Oracles::default();
    match prop {
        "C01" => or.conform = true,
        "C02" => {
            or.conform = true;
            // "the same had-errors answer": every call's flag is right
            or.flags = true;
            or.flags_prop = "C02";
        }
        "C05" => {
            or.wellformed = true;
            or.adversarial_str = true;
            or.reuse_finished = true;
        }
        "C06" => {
            or.contract = true;
            or.submin = true;
            or.aligns = true;
        }
        "C07" => {
            or.query = true;
            or.ladder = true;
        }
        "C08" => {
            or.progress = true;
            or.graph = true;
        }
        "C09" => {
            or.flags = true;
            or.twin = true;
            or.submin = true;
        }
        "C10" => {
            or.conform = true;
            or.encoding_used = true;
            // "however the first three bytes are split", whatever the sink: sub-minimum capacities too
            or.submin = true;
        }
        "C18" => or.prefill3 = true,
        "C19" => or.latin1 = Some(if tier == Tier::Quick { 40 } else { 100 }),
        _ => {}
    }
    or
}

// ---------------------------------------------------------------------------------------------
// Encoder plans

pub struct EncPlanItem {
    pub enc: &'static str,
    pub source: Source,
    pub sink: ESink,
    pub repl: bool,
    pub k: usize,
    pub runs: Vec<usize>,
    pub small: bool,
    pub mixed: bool,
}

pub const QUICK_ENCODERS: [&str; 13] = ["Big5", "EUC-KR", "Shift_JIS", "EUC-JP", "gb18030", "GBK", "ISO-2022-JP", "UTF-8", "UTF-16LE", "x-user-defined", "windows-1252", "windows-874", "IBM866"];

pub fn enc_plan(prop: &str, tier: Tier) -> Vec<EncPlanItem> {
    let q = tier == Tier::Quick;
    let encs: Vec<&'static str> = if q { QUICK_ENCODERS.to_vec() } else { spec::NAMES.to_vec() };
    let mut v = vec![];
    let it = |enc: &'static str, source: Source, sink: ESink, repl: bool, k: usize, runs: &[usize], small: bool| EncPlanItem { enc, source, sink, repl, k, runs: runs.to_vec(), small, mixed: false };
    for &e in &encs {
        let _jp = e == "ISO-2022-JP";
        match prop {
            "C03" | "C04" | "C12" => {
                for source in [Source::Utf8, Source::Utf16] {
                    for repl in [false, true] {
                        // full text alphabet at k=1 from every state, small alphabet at k=2 (3 for ISO-2022-JP in thorough)
                        v.push(it(e, source, ESink::Slice, repl, 1, &[16, 17], false));
                        v.push(it(e, source, ESink::Slice, repl, 2, if q { &[16] } else { &[15, 16, 17, 33] }, true));
                        if !q {
                            v.push(it(e, source, ESink::Slice, repl, 3, &[], true));
                        }
                    }
                }
                if prop == "C04" || prop == "C12" || !q {
                    for source in [Source::Utf8, Source::Utf16] {
                        let mut m = it(e, source, ESink::Slice, false, 2, &[], true);
                        m.mixed = true;
                        v.push(m);
                    }
                }
                if prop == "C04" || !q {
                    v.push(it(e, Source::Utf8, ESink::Vec, false, 2, &[16], true));
                    v.push(it(e, Source::Utf8, ESink::Vec, true, 2, &[16], true));
                }
            }
            "C06" | "C18" => {
                for source in [Source::Utf8, Source::Utf16] {
                    for repl in [false, true] {
                        v.push(it(e, source, ESink::Slice, repl, 2, if q { &[16, 33] } else { &[15, 16, 17, 31, 32, 33, 48] }, true));
                    }
                }
                v.push(it(e, Source::Utf8, ESink::Vec, false, 2, &[16], true));
                v.push(it(e, Source::Utf8, ESink::Vec, true, 2, &[16], true));
            }
            "C07" | "C08" | "C09" => {
                if prop != "C09" {
                    for source in [Source::Utf8, Source::Utf16] {
                        let mut m = it(e, source, ESink::Slice, false, 2, &[], true);
                        m.mixed = true;
                        v.push(m);
                    }
                }
                for source in [Source::Utf8, Source::Utf16] {
                    for repl in [false, true] {
                        if prop == "C09" && !repl {
                            continue;
                        }
                        v.push(it(e, source, ESink::Slice, repl, 2, &[16], true));
                        if !q {
                            v.push(it(e, source, ESink::Slice, repl, 1, &[16], false));
                        }
                    }
                }
            }
            _ => panic!("no encoder plan for {}", prop),
        }
    }
    if slice_sinks_only() {
        v.retain(|it| it.sink == ESink::Slice);
    }
    if simd_subset() {
        v.retain(|it| SIMD_SUBSET_ENCODERS.contains(&it.enc));
        for it in v.iter_mut() {
            if !it.runs.is_empty() {
                it.runs = vec![16, 17, 33, 48];
            }
        }
    }
    v
}

pub fn enc_oracles(prop: &str) -> EOracles {
    let mut or = EOracles::default();
    match prop {
        "C03" => or.conform = true,
        "C04" => {
            or.conform = true;
            or.flags = true;
            or.flags_prop = "C04";
        }
        "C06" => {
            or.contract = true;
            or.submin = true;
            or.aligns = true;
        }
        "C07" => {
            or.query = true;
            or.ladder = true;
        }
        "C08" => {
            or.progress = true;
            or.graph = true;
        }
        "C09" => {
            or.flags = true;
            or.twin = true;
            // the property does not restrict capacities: include the sub-minimum ones
            or.submin = true;
        }
        "C12" => or.decode_back = true,
        "C18" => or.prefill3 = true,
        _ => {}
    }
    or
}

pub fn run_enc_plan(items: Vec<EncPlanItem>, or: &EOracles, tag_chunk: &'static str, tag_single: &'static str) -> (Stats, VioSet) {
    let mut stats = Stats::new();
    let mut vios = VioSet::default();
    let cfgs: Vec<ECfg> = items
        .iter()
        .map(|it| {
            let e = spec::enc(it.enc);
            let syms = alphabet::enc_syms(&e, it.source == Source::Utf16, &it.runs, it.small);
            ECfg { enc: e, source: it.source, sink: it.sink, repl: it.repl, syms, k: it.k, or: or.clone(), threads: 2, max_states: 6_000_000, tag_chunk, tag_single, mixed: it.mixed }
        })
        .collect();
    let outs = par_map(&cfgs, 8, |c| xenc::explore(c));
    for (c, o) in cfgs.iter().zip(outs) {
        if stats.notes.len() < 400 {
            stats.notes.push(format!("{}: states {} transitions {} depth {}", c.label(), o.stats.states, o.stats.transitions, o.stats.max_depth));
        }
        stats.merge(&o.stats);
        vios.merge(o.vios);
    }
    (stats, vios)
}

/// Explorer configurations that are part of the C17 corpus: the converters whose kernels differ
/// between build configurations, with ASCII runs long enough for the double-stride paths.
pub fn c17_plans(tier: Tier) -> (Vec<DecPlanItem>, Vec<EncPlanItem>) {
    let q = tier == Tier::Quick;
    let mut d = vec![];
    let denc: Vec<&'static str> = if q { vec!["UTF-8", "UTF-16LE", "windows-1252", "x-user-defined", "Shift_JIS", "gb18030"] } else { QUICK_ENCS.to_vec() };
    for e in denc {
        for s in [Sink::Utf8, Sink::Utf16] {
            d.push(item(e, s, false, BomMode::Off, 2, &[16, 48]));
            if !q {
                d.push(item(e, s, true, BomMode::Off, 2, &[17, 33]));
            }
        }
    }
    let mut en = vec![];
    let eenc: Vec<&'static str> = if q { vec!["UTF-8", "windows-1252", "Shift_JIS", "EUC-KR", "gb18030", "Big5", "ISO-2022-JP", "x-user-defined", "EUC-JP"] } else { spec::NAMES.to_vec() };
    for e in eenc {
        for source in [Source::Utf8, Source::Utf16] {
            for repl in [false, true] {
                en.push(EncPlanItem { enc: e, source, sink: ESink::Slice, repl, k: 2, runs: vec![16, 48, 49], small: true, mixed: false });
                if !q {
                    en.push(EncPlanItem { enc: e, source, sink: ESink::Slice, repl, k: 1, runs: vec![31, 63, 64], small: false, mixed: false });
                }
            }
        }
    }
    (d, en)
}
