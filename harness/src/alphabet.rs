//! Class-representative alphabets (DESIGN.md section 3.4). Range boundaries and the shortcuts
//! visible in the code are literals; table-dependent representatives are found by searching
//! the frozen reference index for the smallest unit sequence with the required shape.
use crate::spec::dec::{BomMode, RTok};
use crate::spec::enc::ETok;
use crate::spec::{Enc, Kind};

fn ref_tokens(e: &Enc, bytes: &[u8]) -> Vec<RTok> {
    let mut rs = e.ref_stream(BomMode::Off);
    let mut out = vec![];
    for &b in bytes {
        rs.feed(b, &mut out);
    }
    rs.eof(&mut out);
    out
}

fn utf8_len(c: u32) -> usize {
    if c < 0x80 {
        1
    } else if c < 0x800 {
        2
    } else if c < 0x10000 {
        3
    } else {
        4
    }
}

/// Smallest (lexicographic) byte pair over the given lead/trail ranges whose reference decoding
/// satisfies `pred`.
fn find_pair(e: &Enc, pred: impl Fn(u8, u8, &[RTok]) -> bool) -> Option<Vec<u8>> {
    for lead in 0x81..=0xFEu8 {
        for trail in 0x21..=0xFFu8 {
            let t = ref_tokens(e, &[lead, trail]);
            if pred(lead, trail, &t) {
                return Some(vec![lead, trail]);
            }
        }
    }
    None
}

pub const BOM_BYTES: [u8; 5] = [0xEF, 0xBB, 0xBF, 0xFE, 0xFF];

fn push_unique(v: &mut Vec<Vec<u8>>, s: Vec<u8>) {
    if !s.is_empty() && !v.contains(&s) {
        v.push(s);
    }
}

pub fn run_sym(n: usize) -> Vec<u8> {
    (0..n).map(|i| b'a' + (i % 26) as u8).collect()
}

/// Symbols for a decoder exploration. `words`: include multi-byte word symbols (whole valid /
/// invalid sequences) in addition to single bytes. `runs`: ASCII-run macro symbols.
pub fn dec_syms(e: &Enc, with_bom: bool, words: bool, runs: &[usize]) -> Vec<Vec<u8>> {
    let mut v: Vec<Vec<u8>> = vec![];
    let mut bytes: Vec<u8> = vec![];
    let mut wordsv: Vec<Vec<u8>> = vec![];
    match e.kind {
        Kind::SingleByte(i) => {
            let t = &crate::spec::data::data().single_byte[i as usize].1;
            bytes.extend_from_slice(&[0x41, 0x7F, 0x80, 0xFF]);
            // first unmapped byte, first byte mapping to 2-byte and to 3-byte UTF-8, first byte
            // equal to its own value above 0x7F (latin1-compatible) and first that is not
            if let Some(p) = t.iter().position(|&c| c == 0) {
                bytes.push(0x80 + p as u8);
            }
            if let Some(p) = t.iter().position(|&c| c != 0 && utf8_len(c) == 2) {
                bytes.push(0x80 + p as u8);
            }
            if let Some(p) = t.iter().position(|&c| utf8_len(c) == 3) {
                bytes.push(0x80 + p as u8);
            }
            if let Some(p) = t.iter().enumerate().position(|(i, &c)| c == 0x80 + i as u32) {
                bytes.push(0x80 + p as u8);
            }
            if let Some(p) = t.iter().enumerate().position(|(i, &c)| c != 0 && c != 0x80 + i as u32) {
                bytes.push(0x80 + p as u8);
            }
        }
        Kind::UserDefined => bytes.extend_from_slice(&[0x41, 0x7F, 0x80, 0xFF]),
        Kind::Replacement => bytes.extend_from_slice(&[0x41, 0x80]),
        Kind::Utf8 => {
            bytes.extend_from_slice(&[0x41, 0x7F, 0x80, 0x8F, 0x90, 0x9F, 0xA0, 0xBF, 0xC0, 0xC2, 0xDF, 0xE0, 0xE1, 0xED, 0xEE, 0xF0, 0xF1, 0xF4, 0xF5]);
            for w in ["é", "€", "😀", "\u{FFFD}", "\u{7FF}", "\u{800}", "\u{FFFF}", "\u{10000}", "\u{10FFFF}"] {
                wordsv.push(w.as_bytes().to_vec());
            }
            wordsv.push(vec![0xED, 0xA0, 0x80]); // surrogate
            wordsv.push(vec![0xE0, 0x80]); // overlong start
            wordsv.push(vec![0xF4, 0x90]); // above U+10FFFF
            wordsv.push(vec![0xE2, 0x82]); // truncated three-byte
            wordsv.push(vec![0xF0, 0x9F, 0x98]); // truncated four-byte
        }
        Kind::Utf16Be | Kind::Utf16Le => {
            bytes.extend_from_slice(&[0x00, 0x41, 0xD8, 0xDB, 0xDC, 0xDF, 0xD7, 0xE0]);
            let be = e.kind == Kind::Utf16Be;
            let unit = |u: u16| if be { vec![(u >> 8) as u8, u as u8] } else { vec![u as u8, (u >> 8) as u8] };
            for w in [0x0041u16, 0x00E9, 0x20AC, 0xD83D, 0xDE00, 0xDBFF, 0xDFFF, 0xFFFD, 0xFEFF] {
                wordsv.push(unit(w));
            }
            let mut pair = unit(0xD83D);
            pair.extend(unit(0xDE00));
            wordsv.push(pair);
        }
        Kind::Big5 => {
            bytes.extend_from_slice(&[0x41, 0x7F, 0x80, 0x81, 0x87, 0xA1, 0xFE, 0xFF, 0x40, 0x7E, 0xA0, 0x20]);
            // the four two-scalar pointers live at lead 0x88
            bytes.extend_from_slice(&[0x88, 0x62, 0x64, 0xA3, 0xA5]);
            for len in [2usize, 3, 4] {
                if let Some(p) = find_pair(e, |_, _, t| matches!(t, [RTok::Char(c)] if utf8_len(*c) == len)) {
                    wordsv.push(p);
                }
            }
            if let Some(p) = find_pair(e, |_, _, t| t.len() == 2 && matches!(t[0], RTok::Char(_)) && matches!(t[1], RTok::Char(_))) {
                wordsv.push(p);
            }
        }
        Kind::EucKr => {
            bytes.extend_from_slice(&[0x41, 0x7F, 0x80, 0x81, 0xA1, 0xC6, 0xC7, 0xFE, 0xFF, 0x40, 0x5A, 0x61, 0x7A, 0x20]);
            for len in [2usize, 3] {
                if let Some(p) = find_pair(e, |_, _, t| matches!(t, [RTok::Char(c)] if utf8_len(*c) == len)) {
                    wordsv.push(p);
                }
            }
        }
        Kind::ShiftJis => {
            bytes.extend_from_slice(&[0x41, 0x7F, 0x80, 0x81, 0x9F, 0xA0, 0xA1, 0xDF, 0xE0, 0xF0, 0xF9, 0xFC, 0xFD, 0xFF, 0x40, 0x7E, 0x20, 0x5C]);
            // hiragana / katakana fast tracks: 0x82 0x9F.., 0x83 0x40..
            bytes.extend_from_slice(&[0x82, 0x83]);
            for len in [2usize, 3] {
                if let Some(p) = find_pair(e, |_, _, t| matches!(t, [RTok::Char(c)] if utf8_len(*c) == len)) {
                    wordsv.push(p);
                }
            }
            wordsv.push(vec![0x82, 0xA0]); // hiragana
            wordsv.push(vec![0x83, 0x41]); // katakana
            wordsv.push(vec![0xF0, 0x40]); // EUDC
        }
        Kind::EucJp => {
            bytes.extend_from_slice(&[0x41, 0x7F, 0x80, 0x8E, 0x8F, 0xA0, 0xA1, 0xA4, 0xA5, 0xDF, 0xE0, 0xFE, 0xFF, 0x20]);
            for len in [2usize, 3] {
                if let Some(p) = find_pair(e, |l, _, t| l >= 0xA1 && matches!(t, [RTok::Char(c)] if utf8_len(*c) == len)) {
                    wordsv.push(p);
                }
            }
            wordsv.push(vec![0xA4, 0xA2]); // hiragana
            wordsv.push(vec![0xA5, 0xA2]); // katakana
            wordsv.push(vec![0x8E, 0xB1]); // half-width katakana
            // smallest mapped and smallest unmapped JIS X 0212 sequence
            'm: for l in 0xA1..=0xFEu8 {
                for t in 0xA1..=0xFEu8 {
                    if matches!(ref_tokens(e, &[0x8F, l, t])[..], [RTok::Char(_)]) {
                        wordsv.push(vec![0x8F, l, t]);
                        break 'm;
                    }
                }
            }
            wordsv.push(vec![0x8F, 0xA1, 0xA1]);
            wordsv.push(vec![0x8F, 0xA1]);
        }
        Kind::Gbk | Kind::Gb18030 => {
            bytes.extend_from_slice(&[0x41, 0x7F, 0x80, 0x81, 0xA1, 0xA8, 0xFE, 0xFF, 0x30, 0x39, 0x2F, 0x3A, 0x40, 0x7E, 0x20]);
            for len in [2usize, 3] {
                if let Some(p) = find_pair(e, |_, t, tk| !(0x30..=0x39).contains(&t) && matches!(tk, [RTok::Char(c)] if utf8_len(*c) == len)) {
                    wordsv.push(p);
                }
            }
            wordsv.push(vec![0x81, 0x30, 0x81, 0x30]); // U+0080
            wordsv.push(vec![0x81, 0x30, 0x81]);
            wordsv.push(vec![0x81, 0x30]);
            wordsv.push(vec![0x84, 0x31, 0xA4, 0x39]); // U+FFFF
            wordsv.push(vec![0x84, 0x31, 0xA5, 0x30]); // pointer 39420: unmapped
            wordsv.push(vec![0x90, 0x30, 0x81, 0x30]); // U+10000
            wordsv.push(vec![0xE3, 0x32, 0x9A, 0x35]); // U+10FFFF
            wordsv.push(vec![0xE3, 0x32, 0x9A, 0x36]); // beyond
            wordsv.push(vec![0x81, 0x35, 0xF4, 0x37]); // pointer 7457
        }
        Kind::Iso2022Jp => {
            bytes.extend_from_slice(&[0x41, 0x1B, 0x24, 0x28, 0x42, 0x4A, 0x49, 0x40, 0x21, 0x7E, 0x5C, 0x5F, 0x60, 0x0E, 0x0F, 0x80, 0x20, 0x0A]);
            for w in [&b"\x1B(B"[..], b"\x1B(J", b"\x1B(I", b"\x1B$@", b"\x1B$B", b"\x1B$", b"\x1B(", b"\x21\x21", b"\x24\x22", b"\x25\x22"] {
                wordsv.push(w.to_vec());
            }
            // smallest unmapped JIS X 0208 pair
            'o: for l in 0x21..=0x7Eu8 {
                for t in 0x21..=0x7Eu8 {
                    let mut s = b"\x1B$B".to_vec();
                    s.extend_from_slice(&[l, t]);
                    if ref_tokens(e, &s).iter().any(|x| matches!(x, RTok::Err { .. })) {
                        wordsv.push(vec![l, t]);
                        break 'o;
                    }
                }
            }
        }
    }
    if with_bom {
        bytes.extend_from_slice(&BOM_BYTES);
    }
    let mut seen = std::collections::HashSet::new();
    for b in bytes {
        if seen.insert(b) {
            v.push(vec![b]);
        }
    }
    if words {
        // for two-byte encodings add the unmapped-with-ASCII-trail and unmapped-with-high-trail shapes
        if matches!(e.kind, Kind::Big5 | Kind::EucKr | Kind::ShiftJis | Kind::EucJp | Kind::Gbk | Kind::Gb18030) {
            if let Some(p) = find_pair(e, |_, t, tk| t < 0x80 && !(0x30..=0x39).contains(&t) && tk.len() == 2 && matches!(tk[0], RTok::Err { .. })) {
                wordsv.push(p);
            }
            if let Some(p) = find_pair(e, |l, t, tk| t >= 0x80 && l != 0x8E && l != 0x8F && matches!(tk, [RTok::Err { start_back: 2, end_back: 0 }])) {
                wordsv.push(p);
            }
        }
        if with_bom {
            wordsv.push(vec![0xEF, 0xBB, 0xBF]);
            wordsv.push(vec![0xEF, 0xBB]);
            wordsv.push(vec![0xFE, 0xFF]);
            wordsv.push(vec![0xFF, 0xFE]);
        }
        for w in wordsv {
            push_unique(&mut v, w);
        }
    }
    for &n in runs {
        match e.kind {
            // UTF-16: a run of n Basic Latin code units (the accelerated Basic Latin paths), and
            // for the 16-ish lengths also the plain byte run (units that are not Basic Latin)
            Kind::Utf16Le | Kind::Utf16Be => {
                let mut r = vec![];
                for i in 0..n {
                    let c = b'a' + (i % 26) as u8;
                    if e.kind == Kind::Utf16Be {
                        r.extend_from_slice(&[0, c]);
                    } else {
                        r.extend_from_slice(&[c, 0]);
                    }
                }
                push_unique(&mut v, r);
                if n <= 17 {
                    push_unique(&mut v, run_sym(n));
                }
            }
            _ => push_unique(&mut v, run_sym(n)),
        }
    }
    v
}

/// Symbols offered while a BOM is still possible.
pub fn bom_syms(words: bool) -> Vec<Vec<u8>> {
    let mut v: Vec<Vec<u8>> = BOM_BYTES.iter().map(|b| vec![*b]).collect();
    if words {
        v.push(vec![0xEF, 0xBB, 0xBF]);
        v.push(vec![0xEF, 0xBB]);
        v.push(vec![0xFE, 0xFF]);
        v.push(vec![0xFF, 0xFE]);
    }
    v
}

/// Small alphabet used after a BOM switched the decoder to UTF-8 / UTF-16.
pub fn switched_syms() -> Vec<Vec<u8>> {
    vec![vec![0x41], vec![0xC3, 0xA9], vec![0xE2, 0x82, 0xAC], vec![0x00], vec![0xD8], vec![0xDC], vec![0xFF], vec![0x80]]
}

/// All 256 single bytes.
pub fn full_bytes() -> Vec<Vec<u8>> {
    (0..=255u8).map(|b| vec![b]).collect()
}

// ---------------------------------------------------------------------------------------------
// Text alphabets for encoders: scalar values (and, for UTF-16 sources, surrogate code units
// wrapped as values 0xD800..0xDFFF).

fn ref_enc_one(e: &Enc, c: u32) -> Vec<ETok> {
    let mut r = e.ref_encoder();
    let mut out = vec![];
    r.push(c, &mut out);
    out
}

pub fn enc_scalars(e: &Enc) -> Vec<u32> {
    let mut v: Vec<u32> = vec![0x41, 0x7F, 0x80, 0xA0, 0xA5, 0xE9, 0xFF, 0x100, 0x3B1, 0x416, 0x7FF, 0x800, 0x203E, 0x20AC, 0x2212, 0x3042, 0x30A2, 0x4E00, 0x9FA5, 0xAC00, 0xD7A3, 0xE000, 0xE5E5, 0xE7C7, 0xE78D, 0xF780, 0xF7FF, 0xFE10, 0xFF0D, 0xFF61, 0xFF9F, 0xFFFD, 0xFFFF, 0x10000, 0x103FF, 0x1F4A9, 0x2000B, 0x10FC00, 0x10FFFF, 0x0E, 0x0F, 0x1B, 0x5C, 0x7E, 0x1E3F];
    // per-encoder: smallest scalar for each output shape of the reference encoder
    let mut shapes: std::collections::HashMap<String, u32> = std::collections::HashMap::new();
    let mut probe = |c: u32| {
        let t = ref_enc_one(e, c);
        let shape = match t.last() {
            Some(ETok::Unmappable(u)) => {
                format!("unmappable/ncr{}", crate::spec::enc::ncr(*u).len())
            }
            _ => format!("bytes{}/lead{:X}", t.len(), if let Some(ETok::Byte(b)) = t.first() { b >> 4 } else { 0 }),
        };
        shapes.entry(shape).or_insert(c);
    };
    let mut c = 0x80u32;
    while c < 0x110000 {
        if !(0xD800..0xE000).contains(&c) {
            probe(c);
        }
        c += if c < 0x3000 { 1 } else if c < 0x10000 { 7 } else { 4099 };
    }
    // per Unicode block the encoders' lookup code distinguishes: the smallest mappable and the
    // smallest unmappable scalar according to the reference encoder
    const BLOCKS: [(u32, u32); 30] = [
        (0x80, 0xFF), (0x100, 0x24F), (0x250, 0x36F), (0x370, 0x3FF), (0x400, 0x4FF), (0x2000, 0x206F), (0x2100, 0x214F), (0x2150, 0x218F), (0x2190, 0x21FF), (0x2200, 0x22FF),
        (0x2460, 0x24FF), (0x2500, 0x257F), (0x25A0, 0x26FF), (0x3000, 0x303F), (0x3040, 0x309F), (0x30A0, 0x30FF), (0x3100, 0x312F), (0x3130, 0x318F), (0x3200, 0x33FF), (0x3400, 0x4DBF),
        (0x4E00, 0x9FA0), (0x9FA1, 0x9FFF), (0xAC00, 0xD7A3), (0xE000, 0xF8FF), (0xF900, 0xFAFF), (0xFE30, 0xFE4F), (0xFF00, 0xFFEF), (0x10000, 0x1FFFF), (0x20000, 0x2A6DF), (0x2F800, 0x2FA1F),
    ];
    for (lo, hi) in BLOCKS {
        let mut have = (false, false);
        let mut c = lo;
        while c <= hi && !(have.0 && have.1) {
            let unm = matches!(ref_enc_one(e, c).last(), Some(ETok::Unmappable(_)));
            if unm && !have.1 {
                have.1 = true;
                shapes.insert(format!("block{:X}/unmappable", lo), c);
            }
            if !unm && !have.0 {
                have.0 = true;
                shapes.insert(format!("block{:X}/mappable", lo), c);
            }
            c += 1;
        }
    }
    let mut extra: Vec<u32> = shapes.values().copied().collect();
    extra.sort();
    for c in extra {
        if !v.contains(&c) {
            v.push(c);
        }
    }
    v
}

/// Symbols (unit sequences) for an encoder exploration.
pub fn enc_syms(e: &Enc, utf16: bool, runs: &[usize], small: bool) -> Vec<Vec<u32>> {
    let mut v: Vec<Vec<u32>> = vec![];
    let all = enc_scalars(e);
    let pick: Vec<u32> = if small {
        // one scalar per reference output shape plus the literal fold/boundary characters
        // (the last three are the astral scalars whose surrogates are the range boundaries:
        // D800 DC00, D800 DFFF, DBFF DFFF)
        let mut keep: Vec<u32> = vec![0x41, 0x80, 0xA5, 0x203E, 0x2212, 0xFF61, 0xE5E5, 0x20AC, 0x1B, 0x0E, 0x5C, 0xFFFD, 0x1F4A9, 0x10000, 0x103FF, 0x10FFFF];
        // an unmappable and a mappable representative inside the big CJK blocks (the encoders
        // have dedicated lookup branches for them)
        for (lo, hi) in [(0x4E00u32, 0x9FA0u32), (0xAC00, 0xD7A3), (0x3040, 0x30FF), (0x20000, 0x2A6DF), (0xF900, 0xFAFF)] {
            let mut have = (false, false);
            let mut c = lo;
            while c <= hi && !(have.0 && have.1) {
                let unm = matches!(ref_enc_one(e, c).last(), Some(ETok::Unmappable(_)));
                if unm && !have.1 {
                    have.1 = true;
                    if !keep.contains(&c) {
                        keep.push(c);
                    }
                }
                if !unm && !have.0 {
                    have.0 = true;
                    if !keep.contains(&c) {
                        keep.push(c);
                    }
                }
                c += 1;
            }
        }
        let mut seen = std::collections::HashSet::new();
        for &c in &all {
            let t = ref_enc_one(e, c);
            let shape = match t.last() {
                Some(ETok::Unmappable(u)) => format!("u{}", crate::spec::enc::ncr(*u).len()),
                _ => format!("b{}", t.len()),
            };
            if seen.insert(shape) && !keep.contains(&c) {
                keep.push(c);
            }
        }
        keep
    } else {
        all
    };
    for c in pick {
        v.push(vec![c]);
    }
    if utf16 {
        for s in [0xD800u32, 0xDBFF, 0xDC00, 0xDFFF] {
            v.push(vec![s]);
        }
        // reversed pair as one symbol
        v.push(vec![0xDC00, 0xD800]);
    }
    for &n in runs {
        v.push((0..n).map(|i| (b'a' + (i % 26) as u8) as u32).collect());
    }
    v
}
