//! Minimal JSON value, writer and parser (no external crates).
use std::fmt::Write;

#[derive(Clone, Debug, PartialEq)]
pub enum J {
    Null,
    Bool(bool),
    Int(i64),
    Num(f64),
    Str(String),
    Arr(Vec<J>),
    Obj(Vec<(String, J)>),
}

impl J {
    pub fn obj() -> J {
        J::Obj(vec![])
    }
    pub fn set(mut self, k: &str, v: J) -> J {
        if let J::Obj(ref mut o) = self {
            if let Some(e) = o.iter_mut().find(|e| e.0 == k) {
                e.1 = v;
            } else {
                o.push((k.to_string(), v));
            }
        }
        self
    }
    pub fn put(&mut self, k: &str, v: J) {
        if let J::Obj(ref mut o) = self {
            if let Some(e) = o.iter_mut().find(|e| e.0 == k) {
                e.1 = v;
            } else {
                o.push((k.to_string(), v));
            }
        }
    }
    pub fn get(&self, k: &str) -> Option<&J> {
        if let J::Obj(o) = self {
            o.iter().find(|e| e.0 == k).map(|e| &e.1)
        } else {
            None
        }
    }
    pub fn s(v: &str) -> J {
        J::Str(v.to_string())
    }
    pub fn i(v: usize) -> J {
        J::Int(v as i64)
    }
    pub fn as_str(&self) -> Option<&str> {
        if let J::Str(s) = self {
            Some(s)
        } else {
            None
        }
    }
    pub fn as_i64(&self) -> Option<i64> {
        match self {
            J::Int(i) => Some(*i),
            J::Num(f) => Some(*f as i64),
            _ => None,
        }
    }
    pub fn as_bool(&self) -> Option<bool> {
        if let J::Bool(b) = self {
            Some(*b)
        } else {
            None
        }
    }
    pub fn as_arr(&self) -> Option<&Vec<J>> {
        if let J::Arr(a) = self {
            Some(a)
        } else {
            None
        }
    }

    pub fn render(&self) -> String {
        let mut s = String::new();
        self.write(&mut s, 0);
        s.push('\n');
        s
    }
    fn write(&self, s: &mut String, ind: usize) {
        match self {
            J::Null => s.push_str("null"),
            J::Bool(b) => s.push_str(if *b { "true" } else { "false" }),
            J::Int(i) => {
                let _ = write!(s, "{}", i);
            }
            J::Num(f) => {
                if f.is_finite() {
                    let _ = write!(s, "{:.3}", f);
                } else {
                    s.push_str("0");
                }
            }
            J::Str(x) => write_str(s, x),
            J::Arr(a) => {
                if a.is_empty() {
                    s.push_str("[]");
                    return;
                }
                s.push('[');
                for (i, v) in a.iter().enumerate() {
                    if i > 0 {
                        s.push(',');
                    }
                    s.push('\n');
                    s.push_str(&" ".repeat(ind + 1));
                    v.write(s, ind + 1);
                }
                s.push('\n');
                s.push_str(&" ".repeat(ind));
                s.push(']');
            }
            J::Obj(o) => {
                if o.is_empty() {
                    s.push_str("{}");
                    return;
                }
                s.push('{');
                for (i, (k, v)) in o.iter().enumerate() {
                    if i > 0 {
                        s.push(',');
                    }
                    s.push('\n');
                    s.push_str(&" ".repeat(ind + 1));
                    write_str(s, k);
                    s.push_str(": ");
                    v.write(s, ind + 1);
                }
                s.push('\n');
                s.push_str(&" ".repeat(ind));
                s.push('}');
            }
        }
    }
}

fn write_str(s: &mut String, x: &str) {
    s.push('"');
    for c in x.chars() {
        match c {
            '"' => s.push_str("\\\""),
            '\\' => s.push_str("\\\\"),
            '\n' => s.push_str("\\n"),
            '\r' => s.push_str("\\r"),
            '\t' => s.push_str("\\t"),
            c if (c as u32) < 0x20 || (0x7F..0xA0).contains(&(c as u32)) || (c as u32) > 0xFFFF || (0xD800..0xE000).contains(&(c as u32)) => {
                let mut buf = [0u16; 2];
                for u in c.encode_utf16(&mut buf) {
                    let _ = write!(s, "\\u{:04x}", u);
                }
            }
            c => s.push(c),
        }
    }
    s.push('"');
}

pub fn parse(text: &str) -> Result<J, String> {
    let b: Vec<char> = text.chars().collect();
    let mut p = 0usize;
    let v = parse_value(&b, &mut p)?;
    skip_ws(&b, &mut p);
    if p != b.len() {
        return Err(format!("trailing data at {}", p));
    }
    Ok(v)
}

fn skip_ws(b: &[char], p: &mut usize) {
    while *p < b.len() && b[*p].is_whitespace() {
        *p += 1;
    }
}

fn parse_value(b: &[char], p: &mut usize) -> Result<J, String> {
    skip_ws(b, p);
    if *p >= b.len() {
        return Err("eof".into());
    }
    match b[*p] {
        '{' => {
            *p += 1;
            let mut o = vec![];
            skip_ws(b, p);
            if b.get(*p) == Some(&'}') {
                *p += 1;
                return Ok(J::Obj(o));
            }
            loop {
                skip_ws(b, p);
                let k = match parse_value(b, p)? {
                    J::Str(s) => s,
                    _ => return Err("key".into()),
                };
                skip_ws(b, p);
                if b.get(*p) != Some(&':') {
                    return Err("colon".into());
                }
                *p += 1;
                let v = parse_value(b, p)?;
                o.push((k, v));
                skip_ws(b, p);
                match b.get(*p) {
                    Some(',') => *p += 1,
                    Some('}') => {
                        *p += 1;
                        return Ok(J::Obj(o));
                    }
                    _ => return Err("obj".into()),
                }
            }
        }
        '[' => {
            *p += 1;
            let mut a = vec![];
            skip_ws(b, p);
            if b.get(*p) == Some(&']') {
                *p += 1;
                return Ok(J::Arr(a));
            }
            loop {
                a.push(parse_value(b, p)?);
                skip_ws(b, p);
                match b.get(*p) {
                    Some(',') => *p += 1,
                    Some(']') => {
                        *p += 1;
                        return Ok(J::Arr(a));
                    }
                    _ => return Err("arr".into()),
                }
            }
        }
        '"' => {
            *p += 1;
            let mut s = String::new();
            let mut pending_hi: Option<u16> = None;
            while *p < b.len() {
                let c = b[*p];
                *p += 1;
                match c {
                    '"' => return Ok(J::Str(s)),
                    '\\' => {
                        let e = b[*p];
                        *p += 1;
                        match e {
                            'n' => s.push('\n'),
                            'r' => s.push('\r'),
                            't' => s.push('\t'),
                            'u' => {
                                let h: String = b[*p..*p + 4].iter().collect();
                                *p += 4;
                                let u = u16::from_str_radix(&h, 16).map_err(|e| e.to_string())?;
                                if let Some(hi) = pending_hi.take() {
                                    let c = char::decode_utf16([hi, u]).next().unwrap().map_err(|e| e.to_string())?;
                                    s.push(c);
                                } else if (0xD800..0xDC00).contains(&u) {
                                    pending_hi = Some(u);
                                } else {
                                    s.push(char::from_u32(u as u32).ok_or("bad escape")?);
                                }
                            }
                            other => s.push(other),
                        }
                    }
                    c => s.push(c),
                }
            }
            Err("unterminated string".into())
        }
        't' => {
            *p += 4;
            Ok(J::Bool(true))
        }
        'f' => {
            *p += 5;
            Ok(J::Bool(false))
        }
        'n' => {
            *p += 4;
            Ok(J::Null)
        }
        _ => {
            let st = *p;
            while *p < b.len() && (b[*p].is_ascii_digit() || "+-.eE".contains(b[*p])) {
                *p += 1;
            }
            let t: String = b[st..*p].iter().collect();
            if let Ok(i) = t.parse::<i64>() {
                Ok(J::Int(i))
            } else {
                t.parse::<f64>().map(J::Num).map_err(|e| format!("{} at {}", e, st))
            }
        }
    }
}
