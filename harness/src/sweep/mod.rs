pub mod c01;
pub mod c03;
pub mod c11;
pub mod c13;
pub mod c14;
pub mod c15;
pub mod c16;
pub mod c20;
