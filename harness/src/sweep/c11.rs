//! C11: the one-shot API equals the streaming API and borrows when promised.
use crate::checks::Tier;
use crate::drive::*;
use crate::imp::*;
use crate::json::J;
use crate::spec::dec::BomMode;
use crate::spec::{self, Enc, Kind, Tok};
use crate::x::*;
use std::borrow::Cow;
use std::panic::{catch_unwind, AssertUnwindSafe};

fn add(vios: &mut VioSet, kind: &str, e: &Enc, input: &[u8], msg: String) {
    let shown = if input.len() > 80 { format!("{}… ({} bytes)", hex(&input[..80]), input.len()) } else { hex(input) };
    let full = format!("{} {}: input {}: {}", e.name, kind, shown, msg);
    let j = J::obj().set("engine", J::s("sweep")).set("function", J::s(kind)).set("encoding", J::s(e.name)).set("input", J::s(&hex(input))).set("detail", J::obj().set("message", J::s(&full)));
    if vios.wants("C11", kind) {
        vios.add(Violation { prop: "C11".into(), kind: kind.into(), msg: full, replay: j });
    } else {
        vios.count_only("C11", kind);
    }
}

fn text_of(toks: &[Tok]) -> String {
    toks.iter().map(|t| if let Tok::Char(c) = t { char::from_u32(*c).unwrap_or('\u{FFFD}') } else { '\u{FFFD}' }).collect()
}

fn inside(c: &Cow<str>, bytes: &[u8]) -> bool {
    match c {
        Cow::Borrowed(s) => {
            let (p, l) = (s.as_ptr() as usize, s.len());
            let (bp, bl) = (bytes.as_ptr() as usize, bytes.len());
            p >= bp && p + l <= bp + bl
        }
        Cow::Owned(_) => true,
    }
}

/// Is a borrow promised for `rest` (input after BOM removal) decoded as `kind`?
fn promised(kind: Kind, rest: &[u8]) -> bool {
    match kind {
        Kind::Utf8 => std::str::from_utf8(rest).is_ok(),
        Kind::Utf16Be | Kind::Utf16Le | Kind::Replacement => false,
        Kind::Iso2022Jp => rest.iter().all(|&b| b < 0x80 && b != 0x1B && b != 0x0E && b != 0x0F),
        _ => rest.iter().all(|&b| b < 0x80),
    }
}

fn bom_len(bytes: &[u8], mode: BomMode, own: Kind) -> (usize, Option<Kind>) {
    let cands: Vec<(&[u8], Kind)> = match mode {
        BomMode::Off => vec![],
        BomMode::Sniff => vec![(&[0xEF, 0xBB, 0xBF], Kind::Utf8), (&[0xFE, 0xFF], Kind::Utf16Be), (&[0xFF, 0xFE], Kind::Utf16Le)],
        BomMode::Remove => match own {
            Kind::Utf8 => vec![(&[0xEF, 0xBB, 0xBF], Kind::Utf8)],
            Kind::Utf16Be => vec![(&[0xFE, 0xFF], Kind::Utf16Be)],
            Kind::Utf16Le => vec![(&[0xFF, 0xFE], Kind::Utf16Le)],
            _ => vec![],
        },
    };
    for (b, k) in cands {
        if bytes.starts_with(b) {
            return (b.len(), Some(k));
        }
    }
    (0, None)
}

fn check_decode(e: &Enc, bytes: &[u8], stats: &mut Stats, vios: &mut VioSet) {
    // exact heap copy so that aliasing checks are meaningful
    let owned: Box<[u8]> = bytes.to_vec().into_boxed_slice();
    let bytes: &[u8] = &owned;
    for mode in [BomMode::Sniff, BomMode::Remove, BomMode::Off] {
        stats.evaluations += 1;
        let stream = match decode_stream_single(e, mode, Sink::Utf8, true, bytes) {
            Ok(r) => r,
            Err(_) => continue, // streaming problems belong to other properties
        };
        let want_text = text_of(&stream.toks);
        let (reft, used) = spec::ref_decode_all(e, mode, bytes);
        if reft.iter().any(|t| matches!(t, Tok::Err { .. })) {
            stats.nontrivial += 1;
        }
        let (blen, switched) = bom_len(bytes, mode, e.kind);
        let eff_kind = switched.unwrap_or(e.kind);
        let must_borrow = promised(eff_kind, &bytes[blen..]);
        let r = catch_unwind(AssertUnwindSafe(|| match mode {
            BomMode::Sniff => {
                let (c, enc, he) = e.imp.decode(bytes);
                (c, Some(enc.name()), he)
            }
            BomMode::Remove => {
                let (c, he) = e.imp.decode_with_bom_removal(bytes);
                (c, None, he)
            }
            BomMode::Off => {
                let (c, he) = e.imp.decode_without_bom_handling(bytes);
                (c, None, he)
            }
        }));
        let name = match mode {
            BomMode::Sniff => "decode",
            BomMode::Remove => "decode_with_bom_removal",
            BomMode::Off => "decode_without_bom_handling",
        };
        match r {
            Ok((c, enc_used, he)) => {
                if std::str::from_utf8(c.as_bytes()).is_err() {
                    add(vios, name, e, bytes, "returned Cow<str> is not valid UTF-8".into());
                    continue;
                }
                if c.as_ref() != want_text {
                    add(vios, name, e, bytes, format!("one-shot text {:?} differs from the streaming decoder's {:?}", truncate(c.as_ref()), truncate(&want_text)));
                }
                if he != stream.any_errors {
                    add(vios, name, e, bytes, format!("had_errors {} but the streaming decoder reports {}", he, stream.any_errors));
                }
                if let Some(n) = enc_used {
                    if n != stream.used || n != spec::used_name(e.name, used) {
                        add(vios, name, e, bytes, format!("encoding used {} but streaming decoder ended as {} (Standard: {})", n, stream.used, spec::used_name(e.name, used)));
                    }
                }
                if must_borrow && !matches!(c, Cow::Borrowed(_)) {
                    add(vios, name, e, bytes, "an owned String was returned although the documentation promises a borrow".into());
                }
                if !inside(&c, bytes) {
                    add(vios, name, e, bytes, "borrowed result does not alias the caller's bytes".into());
                }
            }
            Err(m) => add(vios, name, e, bytes, format!("panicked: {}", panic_msg(m))),
        }
    }
    // without replacement
    stats.evaluations += 1;
    if let Ok(stream) = decode_stream_single(e, BomMode::Off, Sink::Utf8, false, bytes) {
        let malformed = stream.toks.iter().any(|t| matches!(t, Tok::Err { .. }));
        let r = catch_unwind(AssertUnwindSafe(|| e.imp.decode_without_bom_handling_and_without_replacement(bytes)));
        let name = "decode_without_bom_handling_and_without_replacement";
        match r {
            Ok(None) => {
                if !malformed {
                    add(vios, name, e, bytes, "returned None although the stream has no malformed sequence".into());
                }
            }
            Ok(Some(c)) => {
                if malformed {
                    add(vios, name, e, bytes, "returned Some although the stream contains a malformed sequence".into());
                } else {
                    if c.as_ref() != text_of(&stream.toks) {
                        add(vios, name, e, bytes, "text differs from the streaming decoder's".into());
                    }
                    if promised(e.kind, bytes) && !matches!(c, Cow::Borrowed(_)) {
                        add(vios, name, e, bytes, "owned although a borrow is promised".into());
                    }
                    if !inside(&c, bytes) {
                        add(vios, name, e, bytes, "borrowed result does not alias the caller's bytes".into());
                    }
                }
            }
            Err(m) => add(vios, name, e, bytes, format!("panicked: {}", panic_msg(m))),
        }
    }
}

fn truncate(s: &str) -> String {
    s.chars().take(40).collect()
}

fn check_encode(e: &Enc, text: &str, stats: &mut Stats, vios: &mut VioSet) {
    stats.evaluations += 1;
    let owned: Box<str> = text.to_string().into_boxed_str();
    let text: &str = &owned;
    let stream = match encode_chunks_ample(e, Source::Utf8, true, &[text], &[], true) {
        Ok(r) => r,
        Err(_) => return,
    };
    let want: Vec<u8> = stream.toks.iter().filter_map(|t| if let crate::spec::enc::ETok::Byte(b) = t { Some(*b) } else { None }).collect();
    let r = catch_unwind(AssertUnwindSafe(|| e.imp.encode(text)));
    match r {
        Ok((c, enc, hu)) => {
            if c.as_ref() != &want[..] {
                add(vios, "encode", e, text.as_bytes(), format!("one-shot bytes {} differ from the streaming encoder's {}", hex(&c[..c.len().min(40)]), hex(&want[..want.len().min(40)])));
            }
            if hu != stream.any_unmappable {
                add(vios, "encode", e, text.as_bytes(), format!("had_unmappables {} but streaming encoder reports {}", hu, stream.any_unmappable));
            }
            if enc.name() != e.output_name() {
                add(vios, "encode", e, text.as_bytes(), format!("encoding used {} expected {}", enc.name(), e.output_name()));
            }
            let must = e.output_name() == "UTF-8" || (e.imp.is_ascii_compatible() && text.is_ascii());
            if must && !matches!(c, Cow::Borrowed(_)) {
                add(vios, "encode", e, text.as_bytes(), "owned although a borrow is promised".into());
            }
            if let Cow::Borrowed(b) = &c {
                if b.as_ptr() != text.as_ptr() || b.len() != text.len() {
                    add(vios, "encode", e, text.as_bytes(), "borrowed result does not alias the caller's bytes".into());
                }
            }
        }
        Err(m) => add(vios, "encode", e, text.as_bytes(), format!("panicked: {}", panic_msg(m))),
    }
}

fn tails(e: &Enc) -> Vec<Vec<u8>> {
    // empty, ASCII, valid multi-byte, invalid byte, truncated lead, error-dense
    let syms = crate::alphabet::dec_syms(e, false, true, &[]);
    let mut v: Vec<Vec<u8>> = vec![vec![], b"A".to_vec(), b"AB\x1B".to_vec()];
    for s in syms {
        if s.len() >= 2 || s[0] >= 0x80 {
            v.push(s);
        }
    }
    v.push(vec![0xFF, 0xFF, 0x80, 0xFF]);
    v.truncate(24);
    // two valid multi-byte characters in a row, optionally followed by one ASCII byte (what is
    // left after a character matters to the validators' tail handling)
    let valid: Vec<Vec<u8>> = v
        .iter()
        .filter(|w| w.len() >= 2 && {
            let (t, _) = spec::ref_decode_all(e, BomMode::Off, w);
            t.len() == 1 && matches!(t[0], Tok::Char(_))
        })
        .take(4)
        .cloned()
        .collect();
    for a in &valid {
        for b in &valid {
            let mut w = a.clone();
            w.extend_from_slice(b);
            v.push(w.clone());
            w.push(b'!');
            v.push(w);
        }
    }
    v
}

pub fn run(tier: Tier) -> (Stats, VioSet) {
    let q = tier == Tier::Quick;
    let encs = spec::all();
    let outs = par_map(&encs, 16, |e| {
        let mut stats = Stats::new();
        let mut vios = VioSet::default();
        // (1) all strings of length <= 2
        check_decode(e, &[], &mut stats, &mut vios);
        for a in 0..=255u8 {
            check_decode(e, &[a], &mut stats, &mut vios);
            let step = if q { 3 } else { 1 };
            let mut b = (a as usize) % step;
            while b < 256 {
                check_decode(e, &[a, b as u8], &mut stats, &mut vios);
                b += step;
            }
        }
        // (2) BOM-ish prefixes x tails
        let pb: [u8; 6] = [0xEF, 0xBB, 0xBF, 0xFE, 0xFF, 0x41];
        let tl = tails(e);
        let mut prefixes: Vec<Vec<u8>> = vec![vec![]];
        for &a in &pb {
            prefixes.push(vec![a]);
            for &b in &pb {
                prefixes.push(vec![a, b]);
                for &c in &pb {
                    prefixes.push(vec![a, b, c]);
                }
            }
        }
        for p in &prefixes {
            for t in &tl {
                let mut s = p.clone();
                s.extend_from_slice(t);
                check_decode(e, &s, &mut stats, &mut vios);
            }
        }
        // (3) ASCII run + tail + ASCII suffix: first non-ASCII unit at every position
        let mut ns: Vec<usize> = (0..=130).collect();
        if q {
            ns.extend_from_slice(&[1024, 4096]);
        } else {
            ns.extend_from_slice(&[255, 256, 257, 1023, 1024, 1025, 4095, 4096, 4097]);
        }
        for &n in &ns {
            let run: Vec<u8> = (0..n).map(|i| b'a' + (i % 26) as u8).collect();
            for t in tl.iter().take(if q && n > 40 { 8 } else { 64 }) {
                for suf in [0usize, 1, 17] {
                    if q && suf == 1 && n % 2 == 1 {
                        continue;
                    }
                    let mut s = run.clone();
                    s.extend_from_slice(t);
                    s.extend(std::iter::repeat(b'z').take(suf));
                    check_decode(e, &s, &mut stats, &mut vios);
                }
            }
        }
        // (4) error-dense inputs forcing the second reserve
        let bad: u8 = match e.kind {
            Kind::Utf16Be | Kind::Utf16Le => 0xDC,
            Kind::Iso2022Jp => 0x80,
            _ => 0xFF,
        };
        let mut dens: Vec<usize> = (1..=40).collect();
        dens.extend_from_slice(&[100, 1000]);
        for n in dens {
            let s = vec![bad; n];
            check_decode(e, &s, &mut stats, &mut vios);
            let mut s2 = b"abc".to_vec();
            s2.extend_from_slice(&s);
            check_decode(e, &s2, &mut stats, &mut vios);
        }
        // (5) encode: run shapes with mappable / unmappable / many-unmappable tails
        let texts: Vec<String> = {
            let sc = crate::alphabet::enc_scalars(e);
            let mut t: Vec<String> = vec![String::new()];
            for &c in sc.iter() {
                if let Some(ch) = char::from_u32(c) {
                    t.push(ch.to_string());
                }
            }
            t.push("\u{1F4A9}".repeat(40));
            t.push("\u{E5E5}\u{80}\u{FFFF}".repeat(30));
            t.push("aé€あ😀".to_string());
            t
        };
        let ens: Vec<usize> = if q { (0..=66).chain([127, 128, 129, 1024]).collect() } else { (0..=130).chain([255, 256, 257, 1023, 1024, 1025, 4095, 4096, 4097]).collect() };
        for &n in &ens {
            let run: String = (0..n).map(|i| (b'a' + (i % 26) as u8) as char).collect();
            for t in texts.iter() {
                if q && n > 20 && t.len() > 4 && n % 8 != 0 {
                    continue;
                }
                for suf in [0usize, 17] {
                    let mut s = run.clone();
                    s.push_str(t);
                    s.extend(std::iter::repeat('z').take(suf));
                    check_encode(e, &s, &mut stats, &mut vios);
                }
            }
        }
        stats.samples.push(J::obj().set("encoding", J::s(e.name)).set("family", J::s("ASCII run n in 0..=130 + tail + suffix; BOM-ish prefixes x tails; all <=2-byte strings; error-dense; encode run shapes")));
        (stats, vios)
    });
    let mut stats = Stats::new();
    let mut vios = VioSet::default();
    for (s, v) in outs {
        stats.merge(&s);
        vios.merge(v);
    }
    (stats, vios)
}
