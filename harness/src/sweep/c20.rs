//! C20: metadata predicates versus the actual conversion behaviour of the same build.
use crate::checks::Tier;
use crate::drive::*;
use crate::imp::*;
use crate::json::J;
use crate::spec::dec::BomMode;
use crate::spec::{self, Enc, Tok};
use crate::x::*;
use encoding_rs::Encoding;
use std::collections::HashSet;

fn add(vios: &mut VioSet, kind: &str, enc: &str, msg: String) {
    let j = J::obj().set("engine", J::s("sweep")).set("function", J::s(kind)).set("encoding", J::s(enc)).set("detail", J::obj().set("message", J::s(&msg)));
    vios.add(Violation { prop: "C20".into(), kind: kind.into(), msg, replay: j });
}

pub fn one(e: &Enc) -> (Stats, VioSet) {
    let mut stats = Stats::new();
    let mut vios = VioSet::default();
    // ---- behaviour: decode all strings of length <= 2 (with replacement, UTF-16 units)
    let mut ascii_roundtrip = true;
    let mut units_equal_bytes = true;
    let mut witness_units: Option<Vec<u8>> = None;
    let mut try_stream = |bytes: &[u8], stats: &mut Stats| {
        stats.evaluations += 1;
        if let Ok(run) = decode_stream_single(e, BomMode::Off, Sink::Utf16, true, bytes) {
            let units: usize = run.obs.iter().map(|o| o.out16.len()).sum();
            if units != bytes.len() && units_equal_bytes {
                units_equal_bytes = false;
                witness_units = Some(bytes.to_vec());
            }
        } else {
            units_equal_bytes = false;
        }
    };
    for a in 0..=255u8 {
        try_stream(&[a], &mut stats);
        for b in 0..=255u8 {
            try_stream(&[a, b], &mut stats);
        }
    }
    if e.name == "ISO-2022-JP" {
        for esc in [&b"\x1B(B"[..], b"\x1B(J", b"\x1B(I", b"\x1B$@", b"\x1B$B"] {
            try_stream(esc, &mut stats);
        }
    }
    for b in 0..0x80u8 {
        stats.evaluations += 1;
        let ok = match decode_stream_single(e, BomMode::Off, Sink::Utf8, false, &[b]) {
            Ok(r) => r.toks == vec![Tok::Char(b as u32)],
            Err(_) => false,
        };
        if !ok {
            ascii_roundtrip = false;
        }
    }
    // ---- behaviour: encode every scalar
    let mut any_unmappable = false;
    let mut all_mappable_one_byte = true;
    let mut first_unmappable = 0u32;
    let mut enc_ascii_ok = true;
    let mut buf = [0u8; 32];
    for c in 0..0x110000u32 {
        let ch = match char::from_u32(c) {
            Some(ch) => ch,
            None => continue,
        };
        stats.evaluations += 1;
        let mut sb = [0u8; 4];
        let s: &str = ch.encode_utf8(&mut sb);
        let mut encoder = e.imp.new_encoder();
        let (res, _read, written) = encoder.encode_from_utf8_without_replacement(s, &mut buf, true);
        match res {
            encoding_rs::EncoderResult::InputEmpty => {
                if written != 1 {
                    all_mappable_one_byte = false;
                }
                if c < 0x80 && !(written == 1 && buf[0] == c as u8) {
                    enc_ascii_ok = false;
                }
            }
            encoding_rs::EncoderResult::Unmappable(_) => {
                if !any_unmappable {
                    first_unmappable = c;
                }
                any_unmappable = true;
                if c < 0x80 {
                    enc_ascii_ok = false;
                }
            }
            encoding_rs::EncoderResult::OutputFull => {
                all_mappable_one_byte = false;
            }
        }
    }
    // ---- ASCII in context: after / before a mappable non-ASCII character and after punctuation,
    // from both source forms (the encoders' inner loops differ by what preceded a character)
    let mut first_mapped: Option<(u32, Vec<u8>)> = None;
    let mut ctx_witness: Option<String> = None;
    for c in 0x80..0x10000u32 {
        if let Some(ch) = char::from_u32(c) {
            let mut sb = [0u8; 4];
            let mut encoder = e.imp.new_encoder();
            let (res, _, written) = encoder.encode_from_utf8_without_replacement(ch.encode_utf8(&mut sb), &mut buf, true);
            if res == encoding_rs::EncoderResult::InputEmpty && c != 0xA5 && c != 0x203E {
                first_mapped = Some((c, buf[..written].to_vec()));
                break;
            }
        }
    }
    if let Some((n, nbytes)) = &first_mapped {
        let nch = char::from_u32(*n).unwrap();
        for c in 0..0x80u32 {
            let ch = char::from_u32(c).unwrap();
            let texts: [(String, Vec<u8>); 4] = [
                (format!("{}{}", nch, ch), [&nbytes[..], &[c as u8]].concat()),
                (format!("{},{}", nch, ch), [&nbytes[..], &[0x2C, c as u8]].concat()),
                (format!("{}{}", ch, nch), [&[c as u8], &nbytes[..]].concat()),
                (format!("{}", ch), vec![c as u8]),
            ];
            for (text, want) in texts.iter() {
                for from16 in [false, true] {
                    stats.evaluations += 1;
                    let mut encoder = e.imp.new_encoder();
                    let mut out = [0u8; 64];
                    let (res, written) = if from16 {
                        let u: Vec<u16> = text.encode_utf16().collect();
                        let (r, _, w) = encoder.encode_from_utf16_without_replacement(&u, &mut out, true);
                        (r, w)
                    } else {
                        let (r, _, w) = encoder.encode_from_utf8_without_replacement(text, &mut out, true);
                        (r, w)
                    };
                    if !(res == encoding_rs::EncoderResult::InputEmpty && &out[..written] == &want[..]) {
                        enc_ascii_ok = false;
                        if ctx_witness.is_none() {
                            ctx_witness = Some(format!("{:?} from {} -> {:?} [{}]", text, if from16 { "UTF-16" } else { "UTF-8" }, res, hex(&out[..written])));
                        }
                    }
                    // and the bytes decode back to the same characters
                    stats.evaluations += 1;
                    let ok = match decode_stream_single(e, BomMode::Off, Sink::Utf8, false, want) {
                        Ok(r) => r.toks == text.chars().map(|x| Tok::Char(x as u32)).collect::<Vec<_>>(),
                        Err(_) => false,
                    };
                    if !ok {
                        ascii_roundtrip = false;
                    }
                }
            }
        }
    }
    stats.nontrivial = stats.evaluations;
    // ---- predicates
    let want_ascii = ascii_roundtrip && enc_ascii_ok;
    if e.imp.is_ascii_compatible() != want_ascii {
        add(&mut vios, "is_ascii_compatible", e.name, format!("{}: is_ascii_compatible() = {} but bytes 00-7F {} decode to themselves and those characters {} encode back to single bytes", e.name, e.imp.is_ascii_compatible(), if ascii_roundtrip { "do" } else { "do not" }, if enc_ascii_ok { "do" } else { "do not" }) + &ctx_witness.as_ref().map(|w| format!(" (e.g. {})", w)).unwrap_or_default());
    }
    let want_single = units_equal_bytes && all_mappable_one_byte;
    if e.imp.is_single_byte() != want_single {
        add(&mut vios, "is_single_byte", e.name, format!("{}: is_single_byte() = {} but decode keeps unit count = byte count: {} (witness {:?}), every mappable scalar encodes to one byte: {}", e.name, e.imp.is_single_byte(), units_equal_bytes, witness_units.as_ref().map(|w| hex(w)), all_mappable_one_byte));
    }
    if e.imp.can_encode_everything() != !any_unmappable {
        add(&mut vios, "can_encode_everything", e.name, format!("{}: can_encode_everything() = {} but first unmappable scalar is {}", e.name, e.imp.can_encode_everything(), if any_unmappable { format!("U+{:04X}", first_unmappable) } else { "none".into() }));
    }
    // ---- output encoding
    let oe = e.imp.output_encoding();
    let ne = e.imp.new_encoder().encoding();
    let (_, ee, _) = e.imp.encode("aé");
    let want_out = spec::enc(e.output_name()).imp;
    if oe != ne || oe != ee || oe.output_encoding() != oe || oe != want_out {
        add(&mut vios, "output_encoding", e.name, format!("{}: output_encoding() {} new_encoder().encoding() {} encode().1 {} idempotent {} Standard {}", e.name, oe.name(), ne.name(), ee.name(), oe.output_encoding() == oe, want_out.name()));
    }
    // what the encoder really emits is the output encoding's bytes (decode back)
    {
        let (bytes, _, _) = e.imp.encode("aé€");
        let (back, _) = oe.decode_without_bom_handling(&bytes);
        let (bytes2, _, _) = oe.encode("aé€");
        if bytes != bytes2 {
            add(&mut vios, "output_encoding", e.name, format!("{}: encode() bytes differ from the output encoding's own ({:?})", e.name, back));
        }
    }
    stats.samples.push(J::obj().set("encoding", J::s(e.name)).set("is_ascii_compatible", J::Bool(want_ascii)).set("is_single_byte", J::Bool(want_single)).set("can_encode_everything", J::Bool(!any_unmappable)));
    (stats, vios)
}

pub fn run(_tier: Tier) -> (Stats, VioSet) {
    let encs = spec::all();
    let outs = par_map(&encs, 16, |e| one(e));
    let mut stats = Stats::new();
    let mut vios = VioSet::default();
    for (s, v) in outs {
        stats.merge(&s);
        vios.merge(v);
    }
    // ---- equality and hashing identify exactly the 40 instances
    let all: Vec<&'static Encoding> = encs.iter().map(|e| e.imp).collect();
    for (i, a) in all.iter().enumerate() {
        for (j, b) in all.iter().enumerate() {
            stats.evaluations += 1;
            if (a == b) != (i == j) {
                add(&mut vios, "equality", a.name(), format!("{} == {} is {}", a.name(), b.name(), a == b));
            }
        }
    }
    let set: HashSet<&'static Encoding> = all.iter().copied().collect();
    if set.len() != 40 {
        add(&mut vios, "hash", "all", format!("a HashSet of the 40 encodings has {} members", set.len()));
    }
    for e in &encs {
        stats.evaluations += 1;
        match Encoding::for_label(e.imp.name().as_bytes()) {
            Some(x) if std::ptr::eq(x, e.imp) && set.get(x).map(|m| std::ptr::eq(*m, e.imp)).unwrap_or(false) => {}
            other => add(&mut vios, "name-lookup", e.name, format!("for_label(name) gives {:?}, not the instance itself", other.map(|x| x.name()))),
        }
        // hashing agrees with equality
        use std::hash::{Hash, Hasher};
        let h = |x: &'static Encoding| {
            let mut s = std::collections::hash_map::DefaultHasher::new();
            x.hash(&mut s);
            s.finish()
        };
        if h(e.imp) != h(Encoding::for_label(e.imp.name().as_bytes()).unwrap_or(e.imp)) {
            add(&mut vios, "hash", e.name, "equal encodings hash differently".into());
        }
    }
    (stats, vios)
}
