//! C10 (part): Encoding::for_bom over all byte strings of length <= 3 (and BOM prefixes + 1).
use crate::imp::hex;
use crate::json::J;
use crate::x::*;
use encoding_rs::Encoding;

fn oracle(b: &[u8]) -> Option<(&'static str, usize)> {
    if b.starts_with(&[0xEF, 0xBB, 0xBF]) {
        Some(("UTF-8", 3))
    } else if b.starts_with(&[0xFE, 0xFF]) {
        Some(("UTF-16BE", 2))
    } else if b.starts_with(&[0xFF, 0xFE]) {
        Some(("UTF-16LE", 2))
    } else {
        None
    }
}

fn check(b: &[u8], stats: &mut Stats, vios: &mut VioSet) {
    stats.evaluations += 1;
    let want = oracle(b);
    if want.is_some() {
        stats.nontrivial += 1;
    }
    let got = std::panic::catch_unwind(|| Encoding::for_bom(b).map(|(e, n)| (e.name(), n)));
    if got.as_ref().ok() != Some(&want) {
        let msg = format!("for_bom({}) = {:?}, expected {:?}", hex(b), got.ok(), want);
        let j = J::obj().set("engine", J::s("sweep")).set("function", J::s("for_bom")).set("input", J::s(&hex(b))).set("detail", J::obj().set("message", J::s(&msg)));
        if vios.wants("C10", "for_bom") {
            vios.add(Violation { prop: "C10".into(), kind: "for_bom".into(), msg, replay: j });
        } else {
            vios.count_only("C10", "for_bom");
        }
    }
}

pub fn run() -> (Stats, VioSet) {
    let firsts: Vec<u16> = (0..256).collect();
    let outs = par_map(&firsts, 16, |&a| {
        let a = a as u8;
        let mut stats = Stats::new();
        let mut vios = VioSet::default();
        if a == 0 {
            check(&[], &mut stats, &mut vios);
        }
        check(&[a], &mut stats, &mut vios);
        for b in 0..=255u8 {
            check(&[a, b], &mut stats, &mut vios);
            for c in 0..=255u8 {
                check(&[a, b, c], &mut stats, &mut vios);
            }
            // one more byte after every potential BOM prefix
            if matches!(a, 0xEF | 0xFE | 0xFF) {
                for c in [0xBBu8, 0xBF, 0xFE, 0xFF, 0x00] {
                    for d in 0..=255u8 {
                        check(&[a, b, c, d], &mut stats, &mut vios);
                    }
                }
            }
        }
        (stats, vios)
    });
    let mut stats = Stats::new();
    let mut vios = VioSet::default();
    for (s, v) in outs {
        stats.merge(&s);
        vios.merge(v);
    }
    stats.samples.push(J::obj().set("function", J::s("for_bom")).set("inputs", J::s("all byte strings of length <= 3; 4-byte strings behind every potential BOM prefix")));
    (stats, vios)
}
