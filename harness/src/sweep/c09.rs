//! C09 sweeps: with-replacement methods against the documented manual procedure run on the
//! without-replacement methods (implementation against implementation), over complete input
//! families: the C01 stream families for decoders, every scalar value for encoders.
use crate::checks::Tier;
use crate::drive::*;
use crate::imp::*;
use crate::json::J;
use crate::spec::dec::BomMode;
use crate::spec::enc::ETok;
use crate::spec::{self, Enc, Tok};
use crate::sweep::c01::{cfg_json, families, CAPPED};
use crate::x::*;

fn dec_one(e: &Enc, bytes: &[u8], cut: Option<usize>, stats: &mut Stats, vios: &mut VioSet) {
    for sink in [Sink::Utf8, Sink::Utf16] {
        stats.evaluations += 1;
        let drive = |repl: bool| match cut {
            None => decode_stream_single(e, BomMode::Off, sink, repl, bytes),
            Some(c) if c >= CAPPED => decode_chunks_cap(e, BomMode::Off, sink, repl, &[bytes], true, Some((c - CAPPED).max(sink.min_cap()))),
            Some(c) => decode_chunks_ample(e, BomMode::Off, sink, repl, &[&bytes[..c], &bytes[c..]], true),
        };
        let with = drive(true);
        let manual = drive(false);
        let (w, m) = match (&with, &manual) {
            (Ok(w), Ok(m)) => (w, m),
            _ => {
                // a panic / non-termination of either side: C06/C08 report those; here only a
                // with-replacement failure where the manual procedure succeeds is a difference
                if with.is_err() && manual.is_ok() {
                    report_dec(vios, e, sink, bytes, cut, &format!("with replacement: {:?}", with.as_ref().err()), "manual procedure succeeds");
                }
                continue;
            }
        };
        let folded = fold_repl(&m.toks);
        if m.any_errors {
            stats.nontrivial += 1;
        }
        if w.toks != folded || !w.problems.is_empty() {
            report_dec(vios, e, sink, bytes, cut, &format!("with replacement [{}] {}", toks_short(&w.toks), w.problems.join("; ")), &format!("manual procedure [{}]", toks_short(&folded)));
        } else if w.any_errors != m.any_errors {
            report_dec(vios, e, sink, bytes, cut, &format!("had_errors (OR over calls) {}", w.any_errors), &format!("manual procedure met a Malformed result: {}", m.any_errors));
        }
        // the one-shot with-replacement form (it loops over decode_to_string and ORs the flags)
        if cut.is_none() && sink == Sink::Utf8 {
            stats.evaluations += 1;
            let r = std::panic::catch_unwind(|| {
                let (text, had) = e.imp.decode_without_bom_handling(bytes);
                (text.chars().map(|c| Tok::Char(c as u32)).collect::<Vec<_>>(), had)
            });
            if let Ok((toks, had)) = r {
                if toks != folded {
                    report_dec(vios, e, sink, bytes, cut, &format!("one-shot decode_without_bom_handling [{}]", toks_short(&toks)), &format!("manual procedure [{}]", toks_short(&folded)));
                } else if had != m.any_errors {
                    report_dec(vios, e, sink, bytes, cut, &format!("one-shot decode_without_bom_handling had_errors {}", had), &format!("manual procedure met a Malformed result: {}", m.any_errors));
                }
            }
        }
    }
}

fn report_dec(vios: &mut VioSet, e: &Enc, sink: Sink, bytes: &[u8], cut: Option<usize>, got: &str, want: &str) {
    let kind = "replacement-vs-manual-sweep";
    if !vios.wants("C09", kind) {
        vios.count_only("C09", kind);
        return;
    }
    let msg = format!("{} {}: stream {} cut {:?}: {} but {}", e.name, sink.name(), hex(bytes), cut, got, want);
    let mut j = cfg_json(e, sink, true, "off");
    let calls = match cut {
        None => vec![Call::new(bytes, bytes.len() * 4 + 64, true).to_json()],
        Some(c) if c >= CAPPED => vec![Call::new(bytes, (c - CAPPED).max(sink.min_cap()), true).to_json()],
        Some(c) => vec![Call::new(&bytes[..c], c * 4 + 64, false).to_json(), Call::new(&bytes[c..], (bytes.len() - c) * 4 + 64, true).to_json()],
    };
    j.put("calls", J::Arr(calls));
    j.put("loop", J::Bool(true));
    j.put("detail", J::obj().set("message", J::s(&msg)).set("stream", J::s(&hex(bytes))));
    vios.add(Violation { prop: "C09".into(), kind: kind.into(), msg, replay: j });
}

fn enc_one(e: &Enc, source: Source, units: &[u32], cap: Option<usize>, stats: &mut Stats, vios: &mut VioSet) {
    stats.evaluations += 1;
    let u16s = crate::xenc::units16(units);
    let s8 = if source == Source::Utf8 { units_to_utf8(units) } else { String::new() };
    let drive = |repl: bool, cap: Option<usize>| match source {
        Source::Utf8 => encode_chunks_cap(e, source, repl, &[&s8], &[], true, cap),
        Source::Utf16 => encode_chunks_cap(e, source, repl, &[], &[&u16s], true, cap),
    };
    let with = drive(true, cap);
    let manual = drive(false, cap.map(|c| c.saturating_sub(10).max(4)));
    let (w, m) = match (&with, &manual) {
        (Ok(w), Ok(m)) => (w, m),
        _ => {
            if with.is_err() && manual.is_ok() {
                report_enc(vios, e, source, units, cap, &format!("with replacement: {:?}", with.as_ref().err()), "manual procedure succeeds");
            }
            return;
        }
    };
    let folded = fold_ncr(&m.toks);
    let manual_unmappable = m.toks.iter().any(|t| matches!(t, ETok::Unmappable(_)));
    if manual_unmappable {
        stats.nontrivial += 1;
    }
    if w.toks != folded || !w.problems.is_empty() {
        report_enc(vios, e, source, units, cap, &format!("with replacement [{}] {}", etoks_short(&w.toks), w.problems.join("; ")), &format!("manual procedure [{}]", etoks_short(&folded)));
    } else if w.any_unmappable != manual_unmappable {
        report_enc(vios, e, source, units, cap, &format!("had_unmappables (OR over calls) {}", w.any_unmappable), &format!("manual procedure met an Unmappable result: {}", manual_unmappable));
    }
}

fn report_enc(vios: &mut VioSet, e: &Enc, source: Source, units: &[u32], cap: Option<usize>, got: &str, want: &str) {
    let kind = "replacement-vs-manual-sweep";
    if !vios.wants("C09", kind) {
        vios.count_only("C09", kind);
        return;
    }
    let msg = format!("{} from {:?}: text [{}] capacity {:?}: {} but {}", e.name, source, crate::xenc::units_short(units), cap, got, want);
    let j = J::obj()
        .set("engine", J::s("xenc"))
        .set("encoding", J::s(e.name))
        .set("source", J::s(if source == Source::Utf8 { "utf8" } else { "utf16" }))
        .set("sink", J::s("slice"))
        .set("loop", J::Bool(true))
        .set("repl", J::Bool(true))
        .set("calls", J::Arr(vec![crate::xenc::ECallRec { units: units.to_vec(), cap: cap.unwrap_or(units.len() * 12 + 64), last: true, fill: 0, dalign: 0, fresh: true, method: 2 }.to_json()]))
        .set("detail", J::obj().set("message", J::s(&msg)));
    vios.add(Violation { prop: "C09".into(), kind: kind.into(), msg, replay: j });
}

/// encoders on which (nearly) every scalar is unmappable or which have state: the wrapper code is
/// shared, so the quick tier sweeps all scalars on these and the thorough tier on all 40
const QUICK_ENCODERS: [&str; 6] = ["windows-1252", "ISO-2022-JP", "Big5", "EUC-KR", "Shift_JIS", "x-user-defined"];

pub fn run(tier: Tier) -> (Stats, VioSet) {
    let q = tier == Tier::Quick;
    let encs = spec::all();
    // decoders: the C01 stream families, every encoding
    let mut outs = par_map(&encs, 16, |e| {
        let mut stats = Stats::new();
        let mut vios = VioSet::default();
        // the quick C01 families in both tiers (the deep 4-byte families of the C01 thorough tier
        // exercise the decoders, not the replacement wrapper); thorough adds every 3-byte stream
        families(e, Tier::Quick, &mut |b, cut| dec_one(e, b, cut, &mut stats, &mut vios));
        if !q && !matches!(e.kind, spec::Kind::SingleByte(_) | spec::Kind::UserDefined | spec::Kind::Replacement) {
            for a in 0..=255u8 {
                for b in 0..=255u8 {
                    for c in 0..=255u8 {
                        dec_one(e, &[a, b, c], None, &mut stats, &mut vios);
                    }
                }
            }
        }
        // error-dense heads with clean tails: several substitutions before the point where a
        // growing receiver (String, the one-shot Cow forms) has to continue in a second call
        let bad: Option<u8> = (0x80..=0xFFu8).rev().chain([0x0E, 0x1B]).find(|&b| {
            let (t, _) = spec::ref_decode_all(e, BomMode::Off, &[b, 0x41]);
            matches!(t.first(), Some(Tok::Err { .. })) && t.len() == 2
        });
        if let Some(b) = bad {
            for n in 0..=70usize {
                for m in 2..=6usize {
                    for suf in [0usize, 3, 20, 200] {
                        let mut s: Vec<u8> = (0..n).map(|i| b'a' + (i % 26) as u8).collect();
                        s.extend(std::iter::repeat(b).take(m));
                        s.extend((0..suf).map(|i| b'A' + (i % 26) as u8));
                        dec_one(e, &s, None, &mut stats, &mut vios);
                        dec_one(e, &s, Some(CAPPED + 7), &mut stats, &mut vios);
                    }
                }
            }
        }
        (stats, vios)
    });
    // encoders: every scalar value alone and inside a context, both sources
    let mut shards: Vec<(Enc, u32, u32)> = vec![];
    for e in &encs {
        if q && !QUICK_ENCODERS.contains(&e.name) {
            continue;
        }
        let mut lo = 0u32;
        while lo < 0x110000 {
            shards.push((*e, lo, (lo + 0x22000).min(0x110000)));
            lo += 0x22000;
        }
    }
    outs.extend(par_map(&shards, 16, |(e, lo, hi)| {
        let mut stats = Stats::new();
        let mut vios = VioSet::default();
        for c in *lo..*hi {
            if (0xD800..0xE000).contains(&c) {
                continue;
            }
            enc_one(e, Source::Utf8, &[c], None, &mut stats, &mut vios);
            enc_one(e, Source::Utf16, &[0xE9, c, 0x41], None, &mut stats, &mut vios);
            if !q {
                enc_one(e, Source::Utf16, &[c], None, &mut stats, &mut vios);
                enc_one(e, Source::Utf8, &[0x3042, c, 0x3042], Some(24), &mut stats, &mut vios);
            }
        }
        if *lo == 0 {
            // NCR length ladder: every power-of-ten boundary, both sides, at every capacity from the
            // documented minimum up
            for p in [9u32, 10, 99, 100, 999, 1000, 9999, 10000, 99999, 100000, 999999, 1000000, 1114111] {
                for c in [p.saturating_sub(1), p, p + 1] {
                    if c > 0x10FFFF || (0xD800..0xE000).contains(&c) {
                        continue;
                    }
                    for cap in 14..=40usize {
                        for source in [Source::Utf8, Source::Utf16] {
                            enc_one(e, source, &[0x61, c, c, 0x62], Some(cap), &mut stats, &mut vios);
                        }
                    }
                }
            }
            for s in 0xD800..0xE000u32 {
                enc_one(e, Source::Utf16, &[s], None, &mut stats, &mut vios);
            }
        }
        (stats, vios)
    }));
    let mut stats = Stats::new();
    let mut vios = VioSet::default();
    for (s, v) in outs {
        stats.merge(&s);
        vios.merge(v);
    }
    stats.notes.push("sweeps: with-replacement methods (and the one-shot decode_without_bom_handling) against the manual procedure on the without-replacement methods over the C01 stream families and error-dense heads (40 decoders, both sinks) and over every scalar value plus the NCR length ladder at every capacity (encoders); implementation against implementation".into());
    (stats, vios)
}
