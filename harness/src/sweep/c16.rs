//! C16: mem classification and bidi checks against their per-character definitions.
use crate::checks::Tier;
use crate::imp::{hex, hex16};
use crate::json::J;
use crate::x::*;
use encoding_rs::mem::{self, Latin1Bidi};

/// The documented right-to-left block list, restated as literal ranges.
pub fn def_char_bidi(c: u32) -> bool {
    matches!(c, 0x200F | 0x202B | 0x202E | 0x2067) || (0x0590..=0x08FF).contains(&c) || (0xFB1D..=0xFDFF).contains(&c) || (0xFE70..=0xFEFE).contains(&c) || (0x10800..=0x10FFF).contains(&c) || (0x1E800..=0x1EFFF).contains(&c)
}

pub fn def_unit_bidi(u: u16) -> bool {
    let c = u as u32;
    if (0xD800..0xE000).contains(&c) {
        return matches!(u, 0xD802 | 0xD803 | 0xD83A | 0xD83B);
    }
    def_char_bidi(c)
}

fn lb(x: Latin1Bidi) -> &'static str {
    match x {
        Latin1Bidi::Latin1 => "Latin1",
        Latin1Bidi::LeftToRight => "LeftToRight",
        Latin1Bidi::Bidi => "Bidi",
    }
}

struct Cx {
    stats: Stats,
    vios: VioSet,
}

impl Cx {
    fn fail(&mut self, func: &str, input: String, got: String, want: String) {
        let msg = format!("{}({}) = {} but the definition gives {}", func, input, got, want);
        let j = J::obj().set("engine", J::s("sweep")).set("function", J::s(func)).set("input_text", J::s(&input)).set("detail", J::obj().set("message", J::s(&msg)));
        let kind = format!("{}-wrong", func);
        if self.vios.wants("C16", &kind) {
            self.vios.add(Violation { prop: "C16".into(), kind, msg, replay: j });
        } else {
            self.vios.count_only("C16", &kind);
        }
    }

    fn bytes(&mut self, b: &[u8]) {
        let r = std::panic::catch_unwind(std::panic::AssertUnwindSafe(|| {
            let _ = (mem::is_ascii(b), mem::is_utf8_latin1(b), mem::is_utf8_bidi(b), mem::check_utf8_for_latin1_and_bidi(b));
            if let Ok(s) = std::str::from_utf8(b) {
                let _ = (mem::is_str_latin1(s), mem::is_str_bidi(s), mem::check_str_for_latin1_and_bidi(s));
            }
        }));
        if let Err(e) = r {
            let m = crate::imp::panic_msg(e);
            self.fail("mem-classifier", hex(b), format!("panic: {}", m), "a boolean".into());
            let j = J::obj().set("engine", J::s("sweep")).set("function", J::s("mem classifier")).set("input_text", J::s(&hex(b)));
            self.vios.add(Violation { prop: "C06".into(), kind: "mem-classifier-panic".into(), msg: format!("classifier panicked on {}: {}", hex(b), m), replay: j });
            return;
        }
        self.stats.evaluations += 4;
        {
            let f = Fnv::new().bytes(b).b(mem::is_ascii(b) as u8).b(mem::is_utf8_latin1(b) as u8).b(mem::is_utf8_bidi(b) as u8).s(lb(mem::check_utf8_for_latin1_and_bidi(b)));
            describe(|| format!("bytes {}", hex(b)));
            self.stats.dig("cls/utf8", f);
        }
        let valid = std::str::from_utf8(b).ok();
        let d_ascii = b.iter().all(|&x| x < 0x80);
        let d_latin1 = valid.map(|s| s.chars().all(|c| (c as u32) <= 0xFF)).unwrap_or(false);
        let d_bidi = valid.map(|s| s.chars().any(|c| def_char_bidi(c as u32))).unwrap_or(true);
        let d_check = if d_latin1 {
            "Latin1"
        } else if d_bidi {
            "Bidi"
        } else {
            "LeftToRight"
        };
        if !d_ascii {
            self.stats.nontrivial += 1;
        }
        if mem::is_ascii(b) != d_ascii {
            self.fail("is_ascii", hex(b), (!d_ascii).to_string(), d_ascii.to_string());
        }
        if mem::is_utf8_latin1(b) != d_latin1 {
            self.fail("is_utf8_latin1", hex(b), (!d_latin1).to_string(), d_latin1.to_string());
        }
        if mem::is_utf8_bidi(b) != d_bidi {
            self.fail("is_utf8_bidi", hex(b), (!d_bidi).to_string(), d_bidi.to_string());
        }
        let c = lb(mem::check_utf8_for_latin1_and_bidi(b));
        if c != d_check {
            self.fail("check_utf8_for_latin1_and_bidi", hex(b), c.to_string(), d_check.to_string());
        }
        if let Some(s) = valid {
            self.stats.evaluations += 3;
            if mem::is_str_latin1(s) != d_latin1 {
                self.fail("is_str_latin1", hex(b), (!d_latin1).to_string(), d_latin1.to_string());
            }
            if mem::is_str_bidi(s) != d_bidi {
                self.fail("is_str_bidi", hex(b), (!d_bidi).to_string(), d_bidi.to_string());
            }
            let c = lb(mem::check_str_for_latin1_and_bidi(s));
            if c != d_check {
                self.fail("check_str_for_latin1_and_bidi", hex(b), c.to_string(), d_check.to_string());
            }
        }
    }

    fn units(&mut self, u: &[u16]) {
        let r = std::panic::catch_unwind(std::panic::AssertUnwindSafe(|| {
            let _ = (mem::is_basic_latin(u), mem::is_utf16_latin1(u), mem::is_utf16_bidi(u), mem::check_utf16_for_latin1_and_bidi(u));
        }));
        if let Err(e) = r {
            let m = crate::imp::panic_msg(e);
            self.fail("mem-classifier", hex16(u), format!("panic: {}", m), "a boolean".into());
            let j = J::obj().set("engine", J::s("sweep")).set("function", J::s("mem classifier")).set("input_text", J::s(&hex16(u)));
            self.vios.add(Violation { prop: "C06".into(), kind: "mem-classifier-panic".into(), msg: format!("classifier panicked on {}: {}", hex16(u), m), replay: j });
            return;
        }
        self.stats.evaluations += 4;
        {
            let f = Fnv::new().u16s(u).b(mem::is_basic_latin(u) as u8).b(mem::is_utf16_latin1(u) as u8).b(mem::is_utf16_bidi(u) as u8).s(lb(mem::check_utf16_for_latin1_and_bidi(u)));
            describe(|| format!("units {}", hex16(u)));
            self.stats.dig("cls/utf16", f);
        }
        let d_basic = u.iter().all(|&x| x < 0x80);
        let d_latin1 = u.iter().all(|&x| x <= 0xFF);
        let d_bidi = u.iter().any(|&x| def_unit_bidi(x));
        let d_check = if d_latin1 {
            "Latin1"
        } else if d_bidi {
            "Bidi"
        } else {
            "LeftToRight"
        };
        if !d_basic {
            self.stats.nontrivial += 1;
        }
        if mem::is_basic_latin(u) != d_basic {
            self.fail("is_basic_latin", hex16(u), (!d_basic).to_string(), d_basic.to_string());
        }
        if mem::is_utf16_latin1(u) != d_latin1 {
            self.fail("is_utf16_latin1", hex16(u), (!d_latin1).to_string(), d_latin1.to_string());
        }
        if mem::is_utf16_bidi(u) != d_bidi {
            self.fail("is_utf16_bidi", hex16(u), (!d_bidi).to_string(), d_bidi.to_string());
        }
        let c = lb(mem::check_utf16_for_latin1_and_bidi(u));
        if c != d_check {
            self.fail("check_utf16_for_latin1_and_bidi", hex16(u), c.to_string(), d_check.to_string());
        }
    }
}

pub const BOUNDARY: [u32; 66] = [
    0x41, 0x7F, 0x80, 0xFF, 0x100, 0x58F, 0x590, 0x5D0, 0x627, 0x7FF, 0x800, 0x8FF, 0x900, 0xFFF, 0x1000, 0x200E, 0x200F, 0x2010, 0x202A, 0x202B, 0x202C, 0x202D, 0x202E, 0x202F, 0x2066, 0x2067, 0x2068, 0x3042, 0xD7FF, 0xE000, 0xEFFF, 0xF000, 0xFB1C, 0xFB1D, 0xFDFF,
    0xFE00, 0xFE6F, 0xFE70, 0xFEFE, 0xFEFF, 0xFF00, 0xFFFD, 0xFFFF, 0x10000, 0x107FF, 0x10800, 0x10FFF, 0x11000, 0x1E7FF, 0x1E800, 0x1EFFF, 0x1F000, 0x1F600, 0x3FFFF, 0x40000, 0xFFFFF, 0x100000, 0x10FFFF, 0xC0, 0xD0, 0x4FF, 0x500, 0x8A0, 0x2000, 0x2070, 0xFE20,
];

const INVALID: [&[u8]; 12] = [&[0x80], &[0xBF], &[0xC0, 0x80], &[0xC2], &[0xE0, 0x80, 0x80], &[0xE0, 0xA0], &[0xED, 0xA0, 0x80], &[0xF0, 0x80, 0x80, 0x80], &[0xF4, 0x90, 0x80, 0x80], &[0xF5], &[0xFF], &[0xD7, 0x41]];

pub fn run(tier: Tier) -> (Stats, VioSet) {
    let q = tier == Tier::Quick;
    let maxlen = if q { 40 } else { 64 };
    let maxpos = if q { 40 } else { 48 };
    enum Job {
        Scalars(u32, u32),
        Units,
        Plant(usize),
    }
    let mut jobs = vec![Job::Units];
    let mut lo = 0u32;
    while lo < 0x110000 {
        jobs.push(Job::Scalars(lo, lo + 0x8000));
        lo += 0x8000;
    }
    for l in 0..=maxlen {
        jobs.push(Job::Plant(l));
    }
    let outs = par_map(&jobs, 16, |job| {
        let mut cx = Cx { stats: Stats::new(), vios: VioSet::default() };
        match job {
            Job::Scalars(lo, hi) => {
                for c in *lo..*hi {
                    if let Some(ch) = char::from_u32(c) {
                        cx.stats.evaluations += 1;
                        if mem::is_char_bidi(ch) != def_char_bidi(c) {
                            cx.fail("is_char_bidi", format!("U+{:04X}", c), mem::is_char_bidi(ch).to_string(), def_char_bidi(c).to_string());
                        }
                        let mut buf = [0u8; 4];
                        let s = ch.encode_utf8(&mut buf);
                        cx.bytes(s.as_bytes());
                        let mut b16 = [0u16; 2];
                        cx.units(ch.encode_utf16(&mut b16));
                        // between fillers
                        let t = format!("a{}é", ch);
                        cx.bytes(t.as_bytes());
                    }
                }
            }
            Job::Units => {
                for u in 0..=0xFFFFu16 {
                    cx.stats.evaluations += 1;
                    if mem::is_utf16_code_unit_bidi(u) != def_unit_bidi(u) {
                        cx.fail("is_utf16_code_unit_bidi", format!("{:04X}", u), mem::is_utf16_code_unit_bidi(u).to_string(), def_unit_bidi(u).to_string());
                    }
                    cx.units(&[u]);
                    cx.units(&[0x61, u, 0xE9]);
                }
                for b in 0..=255u8 {
                    cx.bytes(&[b]);
                    cx.bytes(&[b'a', b]);
                }
                cx.stats.samples.push(J::s("every UTF-16 code unit alone and between fillers; every byte alone"));
            }
            Job::Plant(len) => {
                let fillers8: [&str; 3] = ["a", "é", "ā"];
                let fillers16: [u16; 3] = [0x61, 0xE9, 0x101];
                for (fi, f) in fillers8.iter().enumerate() {
                    // plain buffer
                    let plain: String = std::iter::repeat(*f).take(*len).collect();
                    cx.bytes(plain.as_bytes());
                    let plain16: Vec<u16> = vec![fillers16[fi]; *len];
                    cx.units(&plain16);
                    for pos in 0..(*len).min(maxpos + 1) {
                        for &c in &BOUNDARY {
                            let ch = char::from_u32(c).unwrap();
                            let mut s = String::new();
                            for i in 0..*len {
                                if i == pos {
                                    s.push(ch);
                                } else {
                                    s.push_str(f);
                                }
                            }
                            cx.bytes(s.as_bytes());
                            let mut u: Vec<u16> = vec![];
                            for i in 0..*len {
                                if i == pos {
                                    let mut b = [0u16; 2];
                                    u.extend_from_slice(ch.encode_utf16(&mut b));
                                } else {
                                    u.push(fillers16[fi]);
                                }
                            }
                            cx.units(&u);
                        }
                        // ordered pairs of class representatives planted side by side (what follows
                        // a high surrogate / a non-Latin1 unit / an RTL unit matters to the scanners)
                        if pos + 1 < *len {
                            const REPS: [u32; 12] = [0x61, 0xE9, 0x101, 0x590, 0x5D0, 0x200F, 0x3042, 0xFB1D, 0x1F600, 0x10800, 0xD800, 0xDC00];
                            for &a in &REPS {
                                for &b in &REPS {
                                    let mut u = plain16.clone();
                                    let mut rest: Vec<u16> = vec![];
                                    for &c in &[a, b] {
                                        if c >= 0x10000 {
                                            let x = c - 0x10000;
                                            rest.push(0xD800 + (x >> 10) as u16);
                                            rest.push(0xDC00 + (x & 0x3FF) as u16);
                                        } else {
                                            rest.push(c as u16);
                                        }
                                    }
                                    u.splice(pos..pos + 2, rest);
                                    cx.units(&u);
                                    // UTF-8: scalar values only
                                    if !(0xD800..0xE000).contains(&a) && !(0xD800..0xE000).contains(&b) {
                                        let mut sb = String::new();
                                        for i in 0..*len {
                                            if i == pos {
                                                sb.push(char::from_u32(a).unwrap());
                                            } else if i == pos + 1 {
                                                sb.push(char::from_u32(b).unwrap());
                                            } else {
                                                sb.push_str(f);
                                            }
                                        }
                                        cx.bytes(sb.as_bytes());
                                    }
                                }
                            }
                        }
                        // surrogates (UTF-16) and invalid UTF-8 patterns
                        for s16 in [0xD800u16, 0xD802, 0xD803, 0xD83A, 0xD83B, 0xDBFF, 0xDC00, 0xDFFF] {
                            let mut u = plain16.clone();
                            u[pos] = s16;
                            cx.units(&u);
                        }
                        for inv in INVALID.iter() {
                            let mut b: Vec<u8> = vec![];
                            for i in 0..*len {
                                if i == pos {
                                    b.extend_from_slice(inv);
                                } else {
                                    b.extend_from_slice(f.as_bytes());
                                }
                            }
                            cx.bytes(&b);
                        }
                    }
                }
                if *len == 17 {
                    cx.stats.samples.push(J::s("length 17, filler 'é', U+0590 planted at position 16: is_str_bidi / check_* / is_utf16_bidi vs definitions"));
                }
            }
        }
        (cx.stats, cx.vios)
    });
    let mut stats = Stats::new();
    let mut vios = VioSet::default();
    for (s, v) in outs {
        stats.merge(&s);
        vios.merge(v);
    }
    (stats, vios)
}
