//! C03: every scalar value alone through every encoder, both sources, both modes; surrogate
//! arrangements for UTF-16 sources.
use crate::checks::Tier;
use crate::drive::*;
use crate::imp::*;
use crate::json::J;
use crate::spec::enc::ETok;
use crate::spec::{self, Enc};
use crate::x::*;

fn report(vios: &mut VioSet, e: &Enc, source: Source, repl: bool, units: &[u32], got: &str, want: &str) {
    let msg = format!("{} from {:?} {}: text [{}]: crate [{}] reference [{}]", e.name, source, if repl { "repl" } else { "norepl" }, crate::xenc::units_short(units), got, want);
    let j = J::obj()
        .set("engine", J::s("xenc"))
        .set("encoding", J::s(e.name))
        .set("source", J::s(if source == Source::Utf8 { "utf8" } else { "utf16" }))
        .set("sink", J::s("slice"))
        .set("loop", J::Bool(true))
        .set("repl", J::Bool(repl))
        .set("calls", J::Arr(vec![crate::xenc::ECallRec { units: units.to_vec(), cap: units.len() * 12 + 64, last: true, fill: 0, dalign: 0, fresh: true, method: 2 }.to_json()]))
        .set("detail", J::obj().set("message", J::s(&msg)));
    if vios.wants("C03", "single-vs-reference") {
        vios.add(Violation { prop: "C03".into(), kind: "single-vs-reference".into(), msg, replay: j });
    } else {
        vios.count_only("C03", "single-vs-reference");
    }
}

fn one(e: &Enc, source: Source, repl: bool, units: &[u32], stats: &mut Stats, vios: &mut VioSet) {
    one_cap(e, source, repl, units, None, stats, vios)
}

fn one_cap(e: &Enc, source: Source, repl: bool, units: &[u32], cap: Option<usize>, stats: &mut Stats, vios: &mut VioSet) {
    stats.evaluations += 1;
    let u16s = crate::xenc::units16(units);
    let scalars = utf16_to_scalars(&u16s);
    let reft = ref_encode_all(e, &scalars, true);
    if reft.iter().any(|t| matches!(t, ETok::Unmappable(_))) || reft.len() > scalars.len() {
        stats.nontrivial += 1;
    }
    let want = if repl { fold_ncr(&reft) } else { reft };
    let run = match source {
        Source::Utf8 => {
            let s = units_to_utf8(units);
            encode_chunks_cap(e, source, repl, &[&s], &[], true, cap)
        }
        Source::Utf16 => encode_chunks_cap(e, source, repl, &[], &[&u16s], true, cap),
    };
    {
        let mut f = Fnv::new().b(source as u8).b(repl as u8).u(cap.map(|c| c as u64 + 1).unwrap_or(0));
        for &u in units {
            f = f.u(u as u64);
        }
        match &run {
            Ok(r) => {
                for t in &r.toks {
                    f = match t {
                        ETok::Byte(b) => f.b(*b),
                        ETok::Unmappable(c) => f.b(0xEE).u(*c as u64),
                    };
                }
            }
            Err(_) => f = f.s("panic"),
        }
        describe(|| format!("{} {:?} repl {} text {} -> {}", e.name, source, repl, crate::xenc::units_short(units), run.as_ref().map(|r| etoks_short(&r.toks)).unwrap_or_else(|e| e.clone())));
        stats.dig(&format!("enc/{}", e.name), f);
    }
    match run {
        Ok(r) => {
            if r.toks != want || !r.problems.is_empty() {
                report(vios, e, source, repl, units, &etoks_short(&r.toks), &etoks_short(&want));
            }
        }
        Err(m) => report(vios, e, source, repl, units, &format!("panic: {}", m), &etoks_short(&want)),
    }
}

pub fn run(tier: Tier) -> (Stats, VioSet) {
    let thorough = tier == Tier::Thorough;
    let encs = spec::all();
    // shard: (encoding, plane-ish slice)
    let mut shards: Vec<(Enc, u32, u32)> = vec![];
    for e in &encs {
        let mut lo = 0u32;
        while lo < 0x110000 {
            shards.push((*e, lo, (lo + 0x44000).min(0x110000)));
            lo += 0x44000;
        }
    }
    let outs = par_map(&shards, 16, |(e, lo, hi)| {
        let mut stats = Stats::new();
        let mut vios = VioSet::default();
        for c in *lo..*hi {
            if (0xD800..0xE000).contains(&c) {
                continue;
            }
            for source in [Source::Utf8, Source::Utf16] {
                for repl in [false, true] {
                    one(e, source, repl, &[c], &mut stats, &mut vios);
                }
            }
            if thorough {
                // every scalar right after a character of each kind (state transitions, readers'
                // "after ASCII / after non-ASCII / after unmappable" paths) and right before ASCII
                for &p in &[0x61u32, 0xE9, 0xA5, 0x3042, 0x1F4A9] {
                    for source in [Source::Utf8, Source::Utf16] {
                        one(e, source, false, &[p, c], &mut stats, &mut vios);
                    }
                }
                one(e, Source::Utf16, true, &[0x3042, c, 0x61], &mut stats, &mut vios);
                one(e, Source::Utf8, true, &[0xA5, c, 0x3042], &mut stats, &mut vios);
            }
        }
        if *lo == 0 {
            // surrogate arrangements (UTF-16 source only)
            for s in 0xD800..0xE000u32 {
                one(e, Source::Utf16, false, &[s], &mut stats, &mut vios);
                one(e, Source::Utf16, true, &[s], &mut stats, &mut vios);
            }
            for hi_s in [0xD800u32, 0xD83D, 0xDBFF] {
                for lo_s in [0xDC00u32, 0xDCA9, 0xDFFF] {
                    for repl in [false, true] {
                        one(e, Source::Utf16, repl, &[hi_s, lo_s], &mut stats, &mut vios);
                        one(e, Source::Utf16, repl, &[lo_s, hi_s], &mut stats, &mut vios);
                        one(e, Source::Utf16, repl, &[hi_s, 0x41], &mut stats, &mut vios);
                        one(e, Source::Utf16, repl, &[hi_s, 0x3042], &mut stats, &mut vios);
                        one(e, Source::Utf16, repl, &[hi_s, hi_s, lo_s], &mut stats, &mut vios);
                        one(e, Source::Utf16, repl, &[0x41, lo_s, 0x41], &mut stats, &mut vios);
                    }
                }
            }
            // surrogate arrangements directly after a mappable non-ASCII character, after an
            // unmappable one and after ASCII (the UTF-16 readers have separate code for each)
            {
                let sc = crate::alphabet::enc_scalars(e);
                let mapped = sc.iter().copied().find(|&c| c >= 0x80 && c < 0xD800 && !ref_encode_all(e, &[c], true).iter().any(|t| matches!(t, ETok::Unmappable(_))));
                let unmapped = sc.iter().copied().find(|&c| c >= 0x80 && c < 0xD800 && ref_encode_all(e, &[c], true).iter().any(|t| matches!(t, ETok::Unmappable(_))));
                let mut prefixes: Vec<Vec<u32>> = vec![vec![0x41], vec![0x3C], vec![0x20]];
                if let Some(m) = mapped {
                    prefixes.push(vec![m]);
                    prefixes.push(vec![m, 0x2E]);
                }
                if let Some(u) = unmapped {
                    prefixes.push(vec![u]);
                }
                let his = [0xD800u32, 0xD83D, 0xDBFF];
                let los = [0xDC00u32, 0xDCA9, 0xDFFF];
                for p in &prefixes {
                    for &h in &his {
                        for &l in &los {
                            for tail in [vec![h, l], vec![h, h], vec![h, h, l], vec![l, h], vec![h], vec![l], vec![h, 0x41], vec![h, l, h], vec![h, l, l]] {
                                for suffix in [vec![], vec![0x41], p.clone()] {
                                    let mut text = p.clone();
                                    text.extend_from_slice(&tail);
                                    text.extend_from_slice(&suffix);
                                    for repl in [false, true] {
                                        let min = if repl { 14 } else { 4 };
                                        for cap in [None, Some(min), Some(min + 1), Some(min + 2), Some(min + 3)] {
                                            one_cap(e, Source::Utf16, repl, &text, cap, &mut stats, &mut vios);
                                        }
                                    }
                                }
                            }
                        }
                    }
                }
            }
            // ASCII run of every length 0..=100 + one non-ASCII scalar + ASCII suffix, with the
            // output limited per call (exercises the 16/32-unit accelerated copies at every offset)
            let tails: [u32; 5] = [0xE9, 0x3042, 0x1F4A9, 0x80, 0xFFFF];
            for n in 0..=100usize {
                let run: Vec<u32> = (0..n).map(|i| (b'a' + (i % 26) as u8) as u32).collect();
                for &t in &tails {
                    for suf in [0usize, 20] {
                        let mut text = run.clone();
                        text.push(t);
                        text.extend((0..suf).map(|i| (b'A' + (i % 26) as u8) as u32));
                        for source in [Source::Utf8, Source::Utf16] {
                            for repl in [false, true] {
                                let min = if repl { 14 } else { 4 };
                                for cap in [None, Some(n + 4), Some((n / 2).max(min)), Some(64), Some(min), Some(n.max(min)), Some(48)] {
                                    if let Some(c) = cap {
                                        if c < min {
                                            continue;
                                        }
                                    }
                                    one_cap(e, source, repl, &text, cap, &mut stats, &mut vios);
                                }
                            }
                        }
                    }
                }
            }
            stats.samples.push(J::obj().set("encoding", J::s(e.name)).set("text", J::s("U+3042")).set("reference", J::s(&etoks_short(&ref_encode_all(e, &[0x3042], true)))));
        }
        (stats, vios)
    });
    let mut stats = Stats::new();
    let mut vios = VioSet::default();
    for (s, v) in outs {
        stats.merge(&s);
        vios.merge(v);
    }
    (stats, vios)
}
