//! C12 sweep: every scalar value alone and embedded between ASCII and non-ASCII neighbours is
//! encoded (with replacement, and by the documented manual procedure on the without-replacement
//! method) and the complete output is decoded back by the decoder of the same encoding.
use crate::checks::Tier;
use crate::imp::Source;
use crate::json::J;
use crate::spec::enc::ETok;
use crate::spec::{self, Enc};
use crate::x::*;
use encoding_rs::{EncoderResult, Encoding};
use std::panic::{catch_unwind, AssertUnwindSafe};

fn ncr(c: u32) -> String {
    format!("&#{};", c)
}

/// Manual procedure on the without-replacement methods; returns (bytes, unmappables reported in
/// order, has_pending_state after the final call).
fn manual(enc: &'static Encoding, source: Source, text: &str, units: &[u16]) -> (Vec<u8>, Vec<u32>, bool) {
    let mut e = enc.new_encoder();
    let mut out: Vec<u8> = vec![];
    let mut unm = vec![];
    let mut buf = vec![0u8; (text.len() + units.len()) * 4 + 32];
    let (mut r8, mut r16) = (text, units);
    for _ in 0..(text.len() + units.len()) * 2 + 8 {
        let (res, read, written) = match source {
            Source::Utf8 => e.encode_from_utf8_without_replacement(r8, &mut buf, true),
            Source::Utf16 => e.encode_from_utf16_without_replacement(r16, &mut buf, true),
        };
        out.extend_from_slice(&buf[..written]);
        match source {
            Source::Utf8 => r8 = &r8[read..],
            Source::Utf16 => r16 = &r16[read..],
        }
        match res {
            EncoderResult::InputEmpty => return (out, unm, e.has_pending_state()),
            EncoderResult::OutputFull => {}
            EncoderResult::Unmappable(c) => {
                unm.push(c as u32);
                out.extend_from_slice(ncr(c as u32).as_bytes());
            }
        }
    }
    panic!("manual procedure did not terminate");
}

fn with_replacement(enc: &'static Encoding, source: Source, text: &str, units: &[u16]) -> (Vec<u8>, bool) {
    let mut e = enc.new_encoder();
    let mut out: Vec<u8> = vec![];
    let mut buf = vec![0u8; (text.len() + units.len()) * 12 + 32];
    let (mut r8, mut r16) = (text, units);
    for _ in 0..(text.len() + units.len()) * 2 + 8 {
        let (res, read, written, _) = match source {
            Source::Utf8 => e.encode_from_utf8(r8, &mut buf, true),
            Source::Utf16 => e.encode_from_utf16(r16, &mut buf, true),
        };
        out.extend_from_slice(&buf[..written]);
        match source {
            Source::Utf8 => r8 = &r8[read..],
            Source::Utf16 => r16 = &r16[read..],
        }
        if res == encoding_rs::CoderResult::InputEmpty {
            return (out, e.has_pending_state());
        }
    }
    panic!("with-replacement loop did not terminate");
}

fn one(e: &Enc, source: Source, scalars: &[u32], stats: &mut Stats, vios: &mut VioSet) {
    stats.evaluations += 1;
    let text: String = scalars.iter().map(|&c| char::from_u32(c).unwrap()).collect();
    let units: Vec<u16> = text.encode_utf16().collect();
    let out_enc = e.imp.output_encoding();
    let r = catch_unwind(AssertUnwindSafe(|| {
        let (mb, unm, mpend) = manual(e.imp, source, if source == Source::Utf8 { &text } else { "" }, if source == Source::Utf16 { &units } else { &[] });
        let (wb, wpend) = with_replacement(e.imp, source, if source == Source::Utf8 { &text } else { "" }, if source == Source::Utf16 { &units } else { &[] });
        // expected text: unmappable characters (as the encoder itself reported them, in order)
        // become their numeric character reference, everything else is folded per the fixed set
        let mut want = String::new();
        let mut it = unm.iter().peekable();
        for &c in scalars {
            let is_unm = match it.peek() {
                Some(&&u) => u == c || (u == 0xFFFD && matches!(c, 0x0E | 0x0F | 0x1B) && e.kind == spec::Kind::Iso2022Jp),
                None => false,
            };
            if is_unm {
                want.push_str(&ncr(*it.next().unwrap()));
            } else {
                want.push(char::from_u32(crate::xenc::c12_fold(e, c)).unwrap());
            }
        }
        let leftover = it.next().is_some();
        let mdec = out_enc.decode_without_bom_handling_and_without_replacement(&mb).map(|c| c.into_owned());
        let wdec = out_enc.decode_without_bom_handling_and_without_replacement(&wb).map(|c| c.into_owned());
        (mb, wb, mpend, wpend, want, leftover, mdec, wdec, !unm.is_empty())
    }));
    let mut problems: Vec<String> = vec![];
    match r {
        Err(_) => problems.push(format!("panic: {}", crate::imp::LAST_PANIC.lock().map(|g| g.clone()).unwrap_or_default())),
        Ok((mb, wb, mpend, wpend, want, leftover, mdec, wdec, any_unm)) => {
            if any_unm {
                stats.nontrivial += 1;
            }
            if leftover {
                problems.push("the encoder reported an unmappable character that is not in the text".into());
            }
            if mpend || wpend {
                problems.push(format!("has_pending_state() after the final call: manual {} with-replacement {}", mpend, wpend));
            }
            for (what, bytes, dec) in [("manual procedure", &mb, &mdec), ("with replacement", &wb, &wdec)] {
                match dec {
                    None => problems.push(format!("{}: output [{}] is rejected by the {} decoder", what, crate::imp::hex(bytes), out_enc.name())),
                    Some(s) if *s != want => problems.push(format!("{}: output [{}] decodes to {:?}, expected {:?}", what, crate::imp::hex(bytes), s, want)),
                    _ => {}
                }
            }
        }
    }
    if problems.is_empty() {
        return;
    }
    let kind = "round-trip-sweep";
    if !vios.wants("C12", kind) {
        vios.count_only("C12", kind);
        return;
    }
    let msg = format!("{} from {:?}: text [{}]: {}", e.name, source, crate::xenc::units_short(scalars), problems.join("; "));
    let j = J::obj()
        .set("engine", J::s("xenc"))
        .set("encoding", J::s(e.name))
        .set("source", J::s(if source == Source::Utf8 { "utf8" } else { "utf16" }))
        .set("sink", J::s("slice"))
        .set("loop", J::Bool(true))
        .set("repl", J::Bool(true))
        .set("calls", J::Arr(vec![crate::xenc::ECallRec { units: scalars.to_vec(), cap: scalars.len() * 12 + 64, last: true, fill: 0, dalign: 0, fresh: true, method: 2 }.to_json()]))
        .set("detail", J::obj().set("message", J::s(&msg)));
    vios.add(Violation { prop: "C12".into(), kind: kind.into(), msg, replay: j });
}

pub fn run(tier: Tier) -> (Stats, VioSet) {
    let q = tier == Tier::Quick;
    let encs = spec::all();
    let mut shards: Vec<(Enc, u32, u32)> = vec![];
    for e in &encs {
        let mut lo = 0u32;
        while lo < 0x110000 {
            shards.push((*e, lo, (lo + 0x22000).min(0x110000)));
            lo += 0x22000;
        }
    }
    let outs = par_map(&shards, 16, |(e, lo, hi)| {
        let mut stats = Stats::new();
        let mut vios = VioSet::default();
        // a mappable non-ASCII neighbour of this encoder (two-byte / escape-switching where there is one)
        let sc = crate::alphabet::enc_scalars(e);
        let neighbour = sc
            .iter()
            .copied()
            .find(|&c| c >= 0x3000 && c < 0xD800 && !crate::drive::ref_encode_all(e, &[c], true).iter().any(|t| matches!(t, ETok::Unmappable(_))))
            .or_else(|| sc.iter().copied().find(|&c| c >= 0x80 && c < 0xD800 && !crate::drive::ref_encode_all(e, &[c], true).iter().any(|t| matches!(t, ETok::Unmappable(_)))))
            .unwrap_or(0x62);
        for c in *lo..*hi {
            if (0xD800..0xE000).contains(&c) {
                continue;
            }
            one(e, Source::Utf8, &[c], &mut stats, &mut vios);
            one(e, Source::Utf16, &[neighbour, c, neighbour], &mut stats, &mut vios);
            if !q {
                one(e, Source::Utf16, &[c], &mut stats, &mut vios);
                one(e, Source::Utf8, &[0x61, c, 0x62], &mut stats, &mut vios);
                one(e, Source::Utf16, &[0x2C, c, 0x3C], &mut stats, &mut vios);
                one(e, Source::Utf8, &[neighbour, c, neighbour], &mut stats, &mut vios);
            }
        }
        (stats, vios)
    });
    let mut stats = Stats::new();
    let mut vios = VioSet::default();
    for (s, v) in outs {
        stats.merge(&s);
        vios.merge(v);
    }
    stats.notes.push("round-trip sweep: every scalar value alone and between neighbours, encoded with replacement and by the manual procedure, decoded back by the same encoding".into());
    (stats, vios)
}
