//! Re-evaluation of single sweep cases from their replay files (public API only).
use crate::imp::{hex, hex16, unhex};
use crate::json::J;
use encoding_rs::mem;
use encoding_rs::Encoding;
use std::panic::{catch_unwind, AssertUnwindSafe};

fn units_of(text: &str) -> Option<Vec<u16>> {
    let parts: Vec<&str> = text.split_whitespace().collect();
    if parts.is_empty() || parts.iter().any(|p| p.len() != 4) {
        return None;
    }
    parts.iter().map(|p| u16::from_str_radix(p, 16).ok()).collect()
}

pub fn replay(j: &J) -> Result<J, String> {
    let func = j.get("function").and_then(|x| x.as_str()).unwrap_or("");
    let text = j.get("input_text").and_then(|x| x.as_str()).or_else(|| j.get("input").and_then(|x| x.as_str())).unwrap_or("");
    let dl = j.get("dst_len").and_then(|x| x.as_i64()).unwrap_or(0) as usize;
    let base = func.split(':').next().unwrap_or(func);
    let mut out = J::obj().set("function", J::s(base));
    let r = catch_unwind(AssertUnwindSafe(|| -> Result<J, String> {
        let mut o = J::obj();
        match base {
            "for_bom" => {
                let b = unhex(text);
                o.put("result", J::s(&format!("{:?}", Encoding::for_bom(&b).map(|(e, n)| (e.name(), n)))));
            }
            "convert_utf16_to_utf8_partial" | "convert_utf16_to_utf8" | "convert_utf16_to_str_partial" | "convert_utf16_to_str" | "ensure_utf16_validity" | "copy_basic_latin_to_ascii" | "convert_utf16_to_latin1_lossy" => {
                let src = units_of(text).unwrap_or_default();
                let mut dst = vec![0xA5u8; dl];
                match base {
                    "convert_utf16_to_utf8_partial" => {
                        let (r, w) = mem::convert_utf16_to_utf8_partial(&src, &mut dst);
                        o.put("result", J::s(&format!("(read {}, written {})", r, w)));
                    }
                    "convert_utf16_to_utf8" => {
                        let w = mem::convert_utf16_to_utf8(&src, &mut dst);
                        o.put("result", J::s(&format!("written {}", w)));
                    }
                    "convert_utf16_to_str_partial" | "convert_utf16_to_str" => {
                        let mut s: String = match j.get("prior").and_then(|x| x.as_str()) {
                            Some(p) if p.len() == dl => p.to_string(),
                            _ => {
                                let mut s: String = std::iter::repeat('é').take(dl / 2).collect();
                                while s.len() < dl {
                                    s.push('y');
                                }
                                s
                            }
                        };
                        let (r, w) = mem::convert_utf16_to_str_partial(&src, &mut s);
                        o.put("result", J::s(&format!("(read {}, written {}); whole str valid: {}", r, w, std::str::from_utf8(s.as_bytes()).is_ok())));
                        dst = s.as_bytes().to_vec();
                    }
                    "ensure_utf16_validity" => {
                        let mut v = src.clone();
                        mem::ensure_utf16_validity(&mut v);
                        o.put("result", J::s(&hex16(&v)));
                    }
                    "copy_basic_latin_to_ascii" => {
                        dst = vec![0xA5u8; src.len()];
                        let w = mem::copy_basic_latin_to_ascii(&src, &mut dst);
                        o.put("result", J::s(&format!("{}", w)));
                    }
                    _ => {
                        dst = vec![0xA5u8; src.len()];
                        mem::convert_utf16_to_latin1_lossy(&src, &mut dst);
                    }
                }
                o.put("destination_after", J::s(&hex(&dst)));
            }
            "convert_latin1_to_utf8_partial" | "convert_latin1_to_utf8" | "convert_latin1_to_str_partial" | "convert_latin1_to_str" | "convert_latin1_to_utf16" | "copy_ascii_to_ascii" | "copy_ascii_to_basic_latin" | "decode_latin1" | "convert_utf8_to_utf16" | "convert_utf8_to_utf16_without_replacement" | "convert_str_to_utf16" | "convert_utf8_to_latin1_lossy" | "encode_latin1_lossy" => {
                let src = unhex(text);
                match base {
                    "convert_latin1_to_utf8_partial" => {
                        let mut dst = vec![0xA5u8; dl];
                        let r = mem::convert_latin1_to_utf8_partial(&src, &mut dst);
                        o.put("result", J::s(&format!("{:?}", r)));
                        o.put("destination_after", J::s(&hex(&dst)));
                    }
                    "convert_latin1_to_utf8" => {
                        let mut dst = vec![0xA5u8; dl];
                        let r = mem::convert_latin1_to_utf8(&src, &mut dst);
                        o.put("result", J::s(&format!("{:?}", r)));
                        o.put("destination_after", J::s(&hex(&dst)));
                    }
                    "convert_latin1_to_str_partial" | "convert_latin1_to_str" => {
                        let mut s: String = match j.get("prior").and_then(|x| x.as_str()) {
                            Some(p) if p.len() == dl => p.to_string(),
                            _ => {
                                let mut s: String = std::iter::repeat('€').take(dl / 3).collect();
                                while s.len() < dl {
                                    s.push('y');
                                }
                                s
                            }
                        };
                        let r = mem::convert_latin1_to_str_partial(&src, &mut s);
                        o.put("result", J::s(&format!("{:?}; whole str valid: {}", r, std::str::from_utf8(s.as_bytes()).is_ok())));
                        o.put("destination_after", J::s(&hex(s.as_bytes())));
                    }
                    "convert_utf8_to_utf16" => {
                        let mut dst = vec![0u16; src.len() + 1];
                        let w = mem::convert_utf8_to_utf16(&src, &mut dst);
                        o.put("result", J::s(&hex16(&dst[..w])));
                    }
                    "convert_utf8_to_utf16_without_replacement" => {
                        let mut dst = vec![0u16; src.len()];
                        let w = mem::convert_utf8_to_utf16_without_replacement(&src, &mut dst);
                        o.put("result", J::s(&format!("{:?}", w)));
                    }
                    "decode_latin1" => {
                        o.put("result", J::s(&format!("{:?}", mem::decode_latin1(&src))));
                    }
                    "copy_ascii_to_ascii" => {
                        let mut dst = vec![0xA5u8; src.len()];
                        o.put("result", J::s(&format!("{}", mem::copy_ascii_to_ascii(&src, &mut dst))));
                    }
                    "copy_ascii_to_basic_latin" => {
                        let mut dst = vec![0u16; src.len()];
                        o.put("result", J::s(&format!("{}", mem::copy_ascii_to_basic_latin(&src, &mut dst))));
                    }
                    _ => {
                        o.put("note", J::s("case documented by its input; re-run the check to re-evaluate"));
                    }
                }
            }
            "mem-classifier" | "is_ascii" | "is_utf8_latin1" | "is_utf8_bidi" | "check_utf8_for_latin1_and_bidi" | "is_str_latin1" | "is_str_bidi" | "check_str_for_latin1_and_bidi" | "is_basic_latin" | "is_utf16_latin1" | "is_utf16_bidi" | "check_utf16_for_latin1_and_bidi" | "is_char_bidi" | "is_utf16_code_unit_bidi" => {
                // byte functions take continuous hex, UTF-16 functions 4-digit groups: decide by the
                // function (a lone "C080" would be ambiguous)
                let is16 = base.contains("utf16") || base == "is_basic_latin" || (base.starts_with("mem") && text.contains(' '));
                if let Some(u) = units_of(text).filter(|_| is16) {
                    o.put("is_basic_latin", J::Bool(mem::is_basic_latin(&u)));
                    o.put("is_utf16_latin1", J::Bool(mem::is_utf16_latin1(&u)));
                    o.put("is_utf16_bidi", J::Bool(mem::is_utf16_bidi(&u)));
                    o.put("check_utf16_for_latin1_and_bidi", J::s(&format!("{:?}", mem::check_utf16_for_latin1_and_bidi(&u) as u8)));
                } else {
                    let b = unhex(text);
                    o.put("is_ascii", J::Bool(mem::is_ascii(&b)));
                    o.put("is_utf8_latin1", J::Bool(mem::is_utf8_latin1(&b)));
                    o.put("is_utf8_bidi", J::Bool(mem::is_utf8_bidi(&b)));
                    o.put("check_utf8_for_latin1_and_bidi", J::s(&format!("{:?}", mem::check_utf8_for_latin1_and_bidi(&b) as u8)));
                    if let Ok(s) = std::str::from_utf8(&b) {
                        o.put("is_str_latin1", J::Bool(mem::is_str_latin1(s)));
                        o.put("is_str_bidi", J::Bool(mem::is_str_bidi(s)));
                    }
                }
            }
            "decode" | "decode_with_bom_removal" | "decode_without_bom_handling" | "decode_without_bom_handling_and_without_replacement" | "encode" => {
                let e = crate::spec::enc(j.get("encoding").and_then(|x| x.as_str()).ok_or("encoding")?);
                let b = unhex(text);
                match base {
                    "decode" => {
                        let (c, enc, he) = e.imp.decode(&b);
                        o.put("result", J::s(&format!("text {:?} borrowed {} encoding {} had_errors {}", c, matches!(c, std::borrow::Cow::Borrowed(_)), enc.name(), he)));
                    }
                    "decode_with_bom_removal" => {
                        let (c, he) = e.imp.decode_with_bom_removal(&b);
                        o.put("result", J::s(&format!("text {:?} borrowed {} had_errors {}", c, matches!(c, std::borrow::Cow::Borrowed(_)), he)));
                    }
                    "decode_without_bom_handling" => {
                        let (c, he) = e.imp.decode_without_bom_handling(&b);
                        o.put("result", J::s(&format!("text {:?} borrowed {} had_errors {}", c, matches!(c, std::borrow::Cow::Borrowed(_)), he)));
                    }
                    "decode_without_bom_handling_and_without_replacement" => {
                        let c = e.imp.decode_without_bom_handling_and_without_replacement(&b);
                        o.put("result", J::s(&format!("{:?}", c)));
                    }
                    _ => {
                        let s = String::from_utf8_lossy(&b).to_string();
                        let (c, enc, hu) = e.imp.encode(&s);
                        o.put("result", J::s(&format!("bytes {} borrowed {} encoding {} had_unmappables {}", hex(&c), matches!(c, std::borrow::Cow::Borrowed(_)), enc.name(), hu)));
                    }
                }
            }
            "is_ascii_compatible" | "is_single_byte" | "can_encode_everything" | "output_encoding" => {
                // C20: re-evaluate the predicates of this encoding against its behaviour
                let e = crate::spec::enc(j.get("encoding").and_then(|x| x.as_str()).ok_or("encoding")?);
                let (_, v) = crate::sweep::c20::one(&e);
                o.put("predicates", J::s(&format!("is_ascii_compatible {} is_single_byte {} can_encode_everything {} output_encoding {}", e.imp.is_ascii_compatible(), e.imp.is_single_byte(), e.imp.can_encode_everything(), e.imp.output_encoding().name())));
                o.put("disagreements_with_behaviour", J::Arr(v.list.iter().map(|x| J::s(&x.msg)).collect()));
            }
            _ => {
                o.put("note", J::s("case documented by its input; re-run the check to re-evaluate"));
            }
        }
        Ok(o)
    }));
    match r {
        Ok(Ok(o)) => {
            out.put("observed", o);
        }
        Ok(Err(m)) => return Err(m),
        Err(e) => {
            out.put("observed", J::s(&format!("panic: {}", crate::imp::panic_msg(e))));
        }
    }
    Ok(out)
}
