//! C05 sweep: `decode_to_str*` stopped by a malformed byte in the middle of a long ASCII run, with
//! a non-ASCII byte further on in the source: whatever an accelerated copy scribbled beyond
//! `written` must not leave the `&mut str` invalid (adversarial prior contents of the destination).
use crate::checks::Tier;
use crate::drive::Call;
use crate::imp::*;
use crate::json::J;
use crate::spec::dec::BomMode;
use crate::spec::{self, Enc, Tok};
use crate::sweep::c01::cfg_json;
use crate::x::*;

fn prior(cap: usize, filler: &str, lead: usize) -> String {
    let mut p = String::new();
    for _ in 0..lead.min(cap) {
        p.push('x');
    }
    while p.len() + filler.len() <= cap {
        p.push_str(filler);
    }
    while p.len() < cap {
        p.push('y');
    }
    p
}

fn one(e: &Enc, src: &[u8], repl: bool, cap: usize, stats: &mut Stats, vios: &mut VioSet) {
    for (filler, lead) in [("é", 0usize), ("é", 1), ("€", 0), ("€", 2), ("😀", 1)] {
        stats.evaluations += 1;
        let p = prior(cap, filler, lead);
        let mut dec = new_decoder(e, BomMode::Off);
        let d = Dst { cap, fill: 0, align: 0, prior: Some(&p) };
        let r = call_decoder(&mut dec, Sink::Str, repl, src, false, &d);
        let bad = match &r {
            Ok(o) => {
                if o.res != Res::InputEmpty {
                    stats.nontrivial += 1;
                }
                if o.whole_invalid {
                    Some(format!("the &mut str is not valid UTF-8 after the call ({}, read {}, written {})", o.res.short(), o.read, o.written))
                } else {
                    None
                }
            }
            Err(m) => Some(format!("panic: {}", m)),
        };
        if let Some(what) = bad {
            let kind = "decode_to_str:destination-left-invalid";
            if !vios.wants("C05", kind) {
                vios.count_only("C05", kind);
                return;
            }
            let msg = format!("{} decode_to_str{} src {} into {} bytes holding {:?}...: {}", e.name, if repl { "" } else { "_without_replacement" }, hex(src), cap, p.chars().take(8).collect::<String>(), what);
            let mut j = cfg_json(e, Sink::Str, repl, "off");
            let mut c = Call::new(src, cap, false);
            c.prior = Some(p.clone());
            j.put("calls", J::Arr(vec![c.to_json()]));
            j.put("detail", J::obj().set("message", J::s(&msg)));
            vios.add(Violation { prop: "C05".into(), kind: kind.into(), msg, replay: j });
            return;
        }
    }
}

pub fn run(tier: Tier) -> (Stats, VioSet) {
    let q = tier == Tier::Quick;
    let encs = spec::all();
    let outs = par_map(&encs, 16, |e| {
        let mut stats = Stats::new();
        let mut vios = VioSet::default();
        // a byte that is malformed on its own when followed by ASCII
        let bad: Option<u8> = (0x80..=0xFFu8).rev().chain([0x0E, 0x1B]).find(|&b| {
            let (t, _) = spec::ref_decode_all(e, BomMode::Off, &[b, 0x41]);
            matches!(t.first(), Some(Tok::Err { .. })) && t.len() == 2
        });
        let bad = match bad {
            Some(b) if !matches!(e.kind, spec::Kind::Utf16Le | spec::Kind::Utf16Be | spec::Kind::Replacement) => b,
            _ => return (stats, vios),
        };
        let nmax = if q { 70 } else { 130 };
        let mmax = if q { 36 } else { 70 };
        for n in 0..=nmax {
            for m in 0..=mmax {
                for high in [0xE9u8, 0xC3] {
                    let mut src: Vec<u8> = (0..n).map(|i| b'a' + (i % 26) as u8).collect();
                    src.push(bad);
                    src.extend((0..m).map(|i| b'A' + (i % 26) as u8));
                    src.push(high);
                    src.extend((0..20).map(|i| b'0' + (i % 10) as u8));
                    let ample = src.len() * 3 + 8;
                    one(e, &src, false, ample, &mut stats, &mut vios);
                    if m % 5 == 0 {
                        one(e, &src, true, ample, &mut stats, &mut vios);
                        // and with the output ending inside the run after the malformed byte
                        one(e, &src, false, n + 3 + m / 2 + 4, &mut stats, &mut vios);
                    }
                }
            }
        }
        (stats, vios)
    });
    let mut stats = Stats::new();
    let mut vios = VioSet::default();
    for (s, v) in outs {
        stats.merge(&s);
        vios.merge(v);
    }
    stats.notes.push("decode_to_str sweep: ASCII run of every length + malformed byte + ASCII run of every length + non-ASCII byte + tail, five adversarial prior contents, whole destination validated".into());
    (stats, vios)
}
