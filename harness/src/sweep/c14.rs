//! C14: validators return the exact valid prefix length.
use crate::checks::Tier;
use crate::imp::{hex, hex16};
use crate::json::J;
use crate::x::*;
use encoding_rs::mem;
use encoding_rs::Encoding;

pub const UTF8_CLASS: [u8; 28] = [
    0x00, 0x41, 0x7F, 0x80, 0x8F, 0x90, 0x9F, 0xA0, 0xBF, 0xC0, 0xC1, 0xC2, 0xDF, 0xE0, 0xE1, 0xEC, 0xED, 0xEE, 0xEF, 0xF0, 0xF1, 0xF3, 0xF4, 0xF5, 0xFF, 0xC3, 0xE2, 0x82,
];

fn std_valid_up_to(b: &[u8]) -> usize {
    match std::str::from_utf8(b) {
        Ok(_) => b.len(),
        Err(e) => e.valid_up_to(),
    }
}

fn latin1_up_to_oracle(b: &[u8]) -> usize {
    let v = std_valid_up_to(b);
    let s = std::str::from_utf8(&b[..v]).unwrap();
    for (i, c) in s.char_indices() {
        if c as u32 > 0xFF {
            return i;
        }
    }
    v
}

fn utf16_oracle(u: &[u16]) -> usize {
    let mut i = 0;
    while i < u.len() {
        let x = u[i];
        if (0xD800..0xDC00).contains(&x) {
            if i + 1 < u.len() && (0xDC00..0xE000).contains(&u[i + 1]) {
                i += 2;
                continue;
            }
            return i;
        }
        if (0xDC00..0xE000).contains(&x) {
            return i;
        }
        i += 1;
    }
    u.len()
}

/// Runs `f` on a copy of `data` placed at address % 16 == align.
fn at_align<T>(data: &[u8], align: usize, f: impl FnOnce(&[u8]) -> T) -> T {
    crate::imp::with_aligned_src(data, align, f)
}

fn at_align16<T>(data: &[u16], align: usize, f: impl FnOnce(&[u16]) -> T) -> T {
    let mut buf = vec![0xDC00u16; data.len() + 16];
    let base = buf.as_ptr() as usize;
    let off = ((align * 2 + 16 - base % 16) % 16) / 2;
    buf[off..off + data.len()].copy_from_slice(data);
    f(&buf[off..off + data.len()])
}

struct Ctx {
    stats: Stats,
    vios: VioSet,
    path: &'static str,
}

fn guard(f: impl FnOnce() -> usize) -> Result<usize, String> {
    std::panic::catch_unwind(std::panic::AssertUnwindSafe(f)).map_err(crate::imp::panic_msg)
}

impl Ctx {
    fn panicked(&mut self, func: &str, input: String, m: String) {
        let msg = format!("{} panicked ({}) on input {}", func, m, input);
        for prop in ["C14", "C06"] {
            let j = J::obj().set("engine", J::s("sweep")).set("function", J::s(func)).set("input_text", J::s(&input)).set("detail", J::obj().set("message", J::s(&msg)));
            let kind = format!("{}-panic", func);
            if self.vios.wants(prop, &kind) {
                self.vios.add(Violation { prop: prop.into(), kind, msg: msg.clone(), replay: j });
            } else {
                self.vios.count_only(prop, &kind);
            }
        }
    }
    /// unwraps a guarded result; on panic records it and returns None
    fn ok(&mut self, func: &str, input: impl Fn() -> String, r: Result<usize, String>) -> Option<usize> {
        match r {
            Ok(v) => Some(v),
            Err(m) => {
                self.panicked(func, input(), m);
                None
            }
        }
    }
    fn dig(&mut self, func: &str, data_hash: Fnv, r: &Result<usize, String>, input: impl Fn() -> String) {
        let f = data_hash.s(func).u(match r {
            Ok(v) => *v as u64,
            Err(_) => u64::MAX,
        });
        describe(|| format!("{}({}) -> {:?}", func, input(), r));
        // the fast and the scalar UTF-8 path get separate shards so that C17 can compare them
        if func == "utf8_valid_up_to" {
            if self.path == "fast" {
                self.stats.dig("val/utf8_valid_up_to/fast", f);
            } else {
                self.stats.dig("val/utf8_valid_up_to/scalar", f);
            }
        } else {
            self.stats.dig("val/other", f);
        }
    }
    fn fail8(&mut self, func: &str, data: &[u8], align: usize, got: usize, want: usize) {
        let msg = format!("{}({} bytes, align {}, {}) = {} but the definition gives {}; input {}", func, data.len(), align, self.path, got, want, hex(data));
        let j = J::obj().set("engine", J::s("sweep")).set("function", J::s(func)).set("input", J::s(&hex(data))).set("align", J::i(align)).set("path", J::s(self.path)).set("detail", J::obj().set("message", J::s(&msg)));
        let kind = format!("{}-wrong-index", func);
        if self.vios.wants("C14", &kind) {
            self.vios.add(Violation { prop: "C14".into(), kind, msg, replay: j });
        } else {
            self.vios.count_only("C14", &kind);
        }
    }
    fn utf8(&mut self, data: &[u8], align: usize) {
        self.stats.evaluations += 1;
        let want = std_valid_up_to(data);
        if want < data.len() {
            self.stats.nontrivial += 1;
        }
        let r = at_align(data, align, |d| guard(|| Encoding::utf8_valid_up_to(d)));
        self.dig("utf8_valid_up_to", Fnv::new().bytes(data), &r, || hex(data));
        if let Some(got) = self.ok("utf8_valid_up_to", || hex(data), r) {
            if got != want {
                self.fail8("utf8_valid_up_to", data, align, got, want);
            }
        }
    }
    fn latin1(&mut self, data: &[u8], align: usize) {
        self.stats.evaluations += 1;
        let want = latin1_up_to_oracle(data);
        let r = at_align(data, align, |d| guard(|| mem::utf8_latin1_up_to(d)));
        self.dig("utf8_latin1_up_to", Fnv::new().bytes(data), &r, || hex(data));
        if let Some(got) = self.ok("utf8_latin1_up_to", || hex(data), r) {
            if got != want {
                self.fail8("utf8_latin1_up_to", data, align, got, want);
            }
        }
        if let Ok(s) = std::str::from_utf8(data) {
            self.stats.evaluations += 1;
            let r = guard(|| mem::str_latin1_up_to(s));
            self.dig("str_latin1_up_to", Fnv::new().bytes(data), &r, || hex(data));
            if let Some(got) = self.ok("str_latin1_up_to", || hex(data), r) {
                if got != want {
                    self.fail8("str_latin1_up_to", data, align, got, want);
                }
            }
        }
    }
    fn ascii(&mut self, data: &[u8], align: usize) {
        self.stats.evaluations += 2;
        let want = data.iter().position(|&b| b >= 0x80).unwrap_or(data.len());
        let r = at_align(data, align, |d| guard(|| Encoding::ascii_valid_up_to(d)));
        self.dig("ascii_valid_up_to", Fnv::new().bytes(data), &r, || hex(data));
        if let Some(got) = self.ok("ascii_valid_up_to", || hex(data), r) {
            if got != want {
                self.fail8("ascii_valid_up_to", data, align, got, want);
            }
        }
        let want2 = data.iter().position(|&b| b >= 0x80 || b == 0x1B || b == 0x0E || b == 0x0F).unwrap_or(data.len());
        let r2 = at_align(data, align, |d| guard(|| Encoding::iso_2022_jp_ascii_valid_up_to(d)));
        self.dig("iso_2022_jp_ascii_valid_up_to", Fnv::new().bytes(data), &r2, || hex(data));
        if let Some(got2) = self.ok("iso_2022_jp_ascii_valid_up_to", || hex(data), r2) {
            if got2 != want2 {
                self.fail8("iso_2022_jp_ascii_valid_up_to", data, align, got2, want2);
            }
        }
        if want < data.len() {
            self.stats.nontrivial += 1;
        }
    }
    fn utf16(&mut self, data: &[u16], align: usize) {
        self.stats.evaluations += 1;
        let want = utf16_oracle(data);
        if want < data.len() {
            self.stats.nontrivial += 1;
        }
        let r = at_align16(data, align, |d| guard(|| mem::utf16_valid_up_to(d)));
        self.dig("utf16_valid_up_to", Fnv::new().u16s(data), &r, || hex16(data));
        let got = match self.ok("utf16_valid_up_to", || hex16(data), r) {
            Some(g) => g,
            None => return,
        };
        if got != want {
            let msg = format!("utf16_valid_up_to({} units, align {}) = {} but the definition gives {}; input {}", data.len(), align, got, want, hex16(data));
            let j = J::obj().set("engine", J::s("sweep")).set("function", J::s("utf16_valid_up_to")).set("input16", J::s(&hex16(data))).set("align", J::i(align)).set("detail", J::obj().set("message", J::s(&msg)));
            if self.vios.wants("C14", "utf16_valid_up_to-wrong-index") {
                self.vios.add(Violation { prop: "C14".into(), kind: "utf16_valid_up_to-wrong-index".into(), msg, replay: j });
            } else {
                self.vios.count_only("C14", "utf16_valid_up_to-wrong-index");
            }
        }
    }
}

fn prefix(kind: usize, len: usize) -> Vec<u8> {
    match kind {
        0 => (0..len).map(|i| b'a' + (i % 26) as u8).collect(),
        1 => {
            // valid two-byte characters, ASCII pad in front when odd
            let mut v = vec![];
            if len % 2 == 1 {
                v.push(b'z');
            }
            while v.len() < len {
                v.extend_from_slice("é".as_bytes());
            }
            v
        }
        2 => {
            // three-byte characters with ASCII pad
            let mut v = vec![];
            for _ in 0..len % 3 {
                v.push(b'q');
            }
            while v.len() < len {
                v.extend_from_slice("€".as_bytes());
            }
            v
        }
        _ => {
            // four-byte characters with ASCII pad
            let mut v = vec![];
            for _ in 0..len % 4 {
                v.push(b'r');
            }
            while v.len() < len {
                v.extend_from_slice("😀".as_bytes());
            }
            v
        }
    }
}

/// A suffix of exactly `len` bytes that starts with a character of `kind` bytes (if it fits)
/// and continues with ASCII.
fn suffix(kind: usize, len: usize) -> Vec<u8> {
    let first: &[u8] = match kind {
        2 => "é".as_bytes(),
        3 => "日".as_bytes(),
        4 => "💩".as_bytes(),
        _ => b"",
    };
    let mut v = vec![];
    if first.len() <= len {
        v.extend_from_slice(first);
    }
    while v.len() < len {
        v.push(b'.');
    }
    v
}

fn cores(maxlen: usize) -> Vec<Vec<u8>> {
    let mut out: Vec<Vec<u8>> = vec![vec![]];
    let mut level: Vec<Vec<u8>> = vec![vec![]];
    for _ in 0..maxlen {
        let mut next = vec![];
        for p in &level {
            for &b in &UTF8_CLASS {
                let mut c = p.clone();
                c.push(b);
                next.push(c);
            }
        }
        out.extend(next.iter().cloned());
        level = next;
    }
    out
}

pub fn run_phase(tier: Tier, path: &'static str) -> (Stats, VioSet) {
    let q = tier == Tier::Quick;
    let core_list = cores(if q { 3 } else { 4 });
    let plens: Vec<usize> = if q { (0..=20).chain([31, 32, 33, 47, 48, 49]).chain(60..=70).chain([95, 96]).collect() } else { (0..=96).collect() };
    let slens: Vec<usize> = if q { vec![0, 1, 2, 3, 15, 16, 17, 63] } else { vec![0, 1, 2, 3, 4, 5, 15, 16, 17, 63] };
    let aligns_small: Vec<usize> = if q { vec![0, 1, 7, 15] } else { (0..16).collect() };
    // shards over prefix lengths
    #[derive(Clone)]
    enum Job {
        Utf8(usize),
        Ascii(usize),
        Utf16(usize),
        Latin1(usize),
    }
    let mut jobs: Vec<Job> = vec![];
    for &p in &plens {
        jobs.push(Job::Utf8(p));
    }
    let maxlen = if q { 96 } else { 160 };
    if path == "fast" {
        for l in 0..=maxlen {
            jobs.push(Job::Ascii(l));
            jobs.push(Job::Utf16(l));
            jobs.push(Job::Latin1(l));
        }
    }
    let outs = par_map(&jobs, 16, |job| {
        let mut cx = Ctx { stats: Stats::new(), vios: VioSet::default(), path };
        match job {
            Job::Utf8(pl) => {
                for pk in 0..3 {
                    let pre = prefix(pk, *pl);
                    for core in &core_list {
                        for &sl in &slens {
                            let mut data = pre.clone();
                            data.extend_from_slice(core);
                            data.extend(std::iter::repeat(b'x').take(sl));
                            if core.len() <= 2 {
                                for &a in &aligns_small {
                                    cx.utf8(&data, a);
                                }
                            } else {
                                cx.utf8(&data, (pl + sl) % 16);
                            }
                        }
                    }
                }
                // multi-byte neighbours on both sides: every prefix kind (incl. four-byte
                // characters) x short cores (incl. none) x suffixes that start with a 2/3/4-byte
                // character and end 0..=9 bytes later
                for pk in 0..4 {
                    let pre = prefix(pk, *pl);
                    for core in core_list.iter().filter(|c| c.len() <= 1) {
                        for sk in [2usize, 3, 4] {
                            for sl in 0..=9usize {
                                let mut data = pre.clone();
                                data.extend_from_slice(core);
                                data.extend(suffix(sk, sl));
                                cx.utf8(&data, (pl + sl) % 16);
                                // and two such characters in a row at the very end
                                let mut d2 = pre.clone();
                                d2.extend_from_slice(core);
                                d2.extend(suffix(sk, sk));
                                d2.extend(suffix(sl % 3 + 2, sl % 3 + 2));
                                cx.utf8(&d2, pl % 16);
                            }
                        }
                    }
                }
                if *pl == 33 {
                    cx.stats.samples.push(J::obj().set("function", J::s("utf8_valid_up_to")).set("input", J::s("33 x 'a' + E0 80 41 + 16 x 'x'")).set("path", J::s(path)));
                }
            }
            Job::Ascii(len) => {
                for pos in 0..*len {
                    for d in [0x80u8, 0xFF, 0x1B, 0x0E, 0x0F] {
                        let mut data: Vec<u8> = (0..*len).map(|i| b'a' + (i % 26) as u8).collect();
                        data[pos] = d;
                        for &a in &aligns_small {
                            cx.ascii(&data, a);
                        }
                    }
                }
                let data: Vec<u8> = (0..*len).map(|i| b'a' + (i % 26) as u8).collect();
                for &a in &aligns_small {
                    cx.ascii(&data, a);
                }
            }
            Job::Utf16(len) => {
                let sur = [0xD800u16, 0xDBFF, 0xDC00, 0xDFFF];
                for filler in [0x41u16, 0x20, 0xD7FF, 0xE000] {
                    let base: Vec<u16> = vec![filler; *len];
                    cx.utf16(&base, len % 8);
                    for pos in 0..*len {
                        for &s in &sur {
                            let mut d = base.clone();
                            d[pos] = s;
                            cx.utf16(&d, pos % 8);
                            for &s2 in &sur {
                                if pos + 1 < *len {
                                    let mut d2 = d.clone();
                                    d2[pos + 1] = s2;
                                    cx.utf16(&d2, (pos + 1) % 8);
                                }
                                if pos + 2 < *len && filler == 0x41 {
                                    let mut d3 = d.clone();
                                    d3[pos + 2] = s2;
                                    cx.utf16(&d3, 0);
                                }
                                // three and four surrogates in a row, and a pair, spaces, a surrogate
                                if pos + 2 < *len && (filler == 0x20 || filler == 0x41) {
                                    for &s3 in &sur {
                                        let mut d4 = d.clone();
                                        d4[pos + 1] = s2;
                                        d4[pos + 2] = s3;
                                        cx.utf16(&d4, pos % 8);
                                        if pos + 3 < *len {
                                            for &s4 in &[0xDC00u16, 0xD800] {
                                                let mut d5 = d4.clone();
                                                d5[pos + 3] = s4;
                                                cx.utf16(&d5, pos % 8);
                                            }
                                            let mut d6 = d.clone();
                                            d6[pos + 1] = s2;
                                            d6[pos + 2] = 0x20;
                                            d6[pos + 3] = s3;
                                            cx.utf16(&d6, pos % 8);
                                        }
                                    }
                                }
                            }
                        }
                    }
                }
            }
            Job::Latin1(len) => {
                let pats: [&[u8]; 15] = [&[0xC2, 0x80], &[0xC3, 0xBF], &[0xC4, 0x80], &[0xE0, 0xA0, 0x80], &[0xC2], &[0xC2, 0x41], &[0x80], &[0xFF], &[0xF0, 0x9F, 0x98, 0x80], &[0x80, 0xA6], &[0xBF, 0x80], &[0xC0, 0xAF], &[0xC1, 0xBF], &[0xC3], &[0xC3, 0xC3, 0xA9]];
                for fk in 0..2 {
                    for pos in 0..=*len {
                        for pat in pats.iter() {
                            let mut data = prefix(fk, pos);
                            data.extend_from_slice(pat);
                            let rest = len.saturating_sub(pos);
                            data.extend(prefix(fk, rest));
                            cx.latin1(&data, pos % 16);
                        }
                    }
                }
            }
        }
        (cx.stats, cx.vios)
    });
    let mut stats = Stats::new();
    let mut vios = VioSet::default();
    for (s, v) in outs {
        stats.merge(&s);
        vios.merge(v);
    }
    (stats, vios)
}

pub fn run(tier: Tier) -> (Stats, VioSet) {
    encoding_rs::verif_force_scalar_utf8(false);
    let (mut s, mut v) = run_phase(tier, "fast");
    encoding_rs::verif_force_scalar_utf8(true);
    let (s2, v2) = run_phase(tier, "scalar");
    encoding_rs::verif_force_scalar_utf8(false);
    s.merge(&s2);
    v.merge(v2);
    s.notes.push("utf8_valid_up_to swept twice: SIMD-validator dispatch enabled, then forced to the built-in scalar validator (verification hook)".into());
    (s, v)
}

pub fn replay(j: &J) -> Result<J, String> {
    let func = j.get("function").and_then(|x| x.as_str()).ok_or("function")?;
    let align = j.get("align").and_then(|x| x.as_i64()).unwrap_or(0) as usize;
    if func == "utf16_valid_up_to" {
        let data: Vec<u16> = j.get("input16").and_then(|x| x.as_str()).ok_or("input16")?.split_whitespace().map(|x| u16::from_str_radix(x, 16).unwrap()).collect();
        let got = at_align16(&data, align, |d| mem::utf16_valid_up_to(d));
        return Ok(J::obj().set("result", J::i(got)).set("definition", J::i(utf16_oracle(&data))));
    }
    let data = crate::imp::unhex(j.get("input").and_then(|x| x.as_str()).ok_or("input")?);
    encoding_rs::verif_force_scalar_utf8(j.get("path").and_then(|x| x.as_str()) == Some("scalar"));
    let (got, want) = match func {
        "utf8_valid_up_to" => (at_align(&data, align, |d| Encoding::utf8_valid_up_to(d)), std_valid_up_to(&data)),
        "ascii_valid_up_to" => (at_align(&data, align, |d| Encoding::ascii_valid_up_to(d)), data.iter().position(|&b| b >= 0x80).unwrap_or(data.len())),
        "iso_2022_jp_ascii_valid_up_to" => (at_align(&data, align, |d| Encoding::iso_2022_jp_ascii_valid_up_to(d)), data.iter().position(|&b| b >= 0x80 || b == 0x1B || b == 0x0E || b == 0x0F).unwrap_or(data.len())),
        "utf8_latin1_up_to" => (at_align(&data, align, |d| mem::utf8_latin1_up_to(d)), latin1_up_to_oracle(&data)),
        "str_latin1_up_to" => (mem::str_latin1_up_to(std::str::from_utf8(&data).map_err(|e| e.to_string())?), latin1_up_to_oracle(&data)),
        _ => return Err(format!("unknown function {}", func)),
    };
    Ok(J::obj().set("result", J::i(got)).set("definition", J::i(want)))
}
