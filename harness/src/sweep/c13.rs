//! C13: label resolution against the Standard's "get an encoding" over exhaustive families.
use crate::checks::Tier;
use crate::imp::hex;
use crate::json::J;
use crate::spec;
use crate::x::*;
use encoding_rs::Encoding;
use std::collections::HashMap;

struct Oracle {
    map: HashMap<Vec<u8>, &'static str>,
}

impl Oracle {
    fn new() -> Oracle {
        let mut map = HashMap::new();
        for (l, n) in &spec::data::data().labels {
            let name: &'static str = spec::NAMES.iter().find(|x| **x == n.as_str()).expect("label names an encoding");
            map.insert(l.as_bytes().to_vec(), name);
        }
        Oracle { map }
    }
    /// The Standard's get an encoding.
    fn get(&self, label: &[u8]) -> Option<&'static str> {
        let ws = |b: u8| matches!(b, 0x09 | 0x0A | 0x0C | 0x0D | 0x20);
        let mut s = 0;
        let mut e = label.len();
        while s < e && ws(label[s]) {
            s += 1;
        }
        while e > s && ws(label[e - 1]) {
            e -= 1;
        }
        let lowered: Vec<u8> = label[s..e].iter().map(|b| b.to_ascii_lowercase()).collect();
        self.map.get(&lowered).copied()
    }
}

fn check(o: &Oracle, label: &[u8], stats: &mut Stats, vios: &mut VioSet) {
    stats.evaluations += 1;
    let want = o.get(label);
    if want.is_some() {
        stats.nontrivial += 1;
    }
    let got = std::panic::catch_unwind(|| (Encoding::for_label(label).map(|e| e.name()), Encoding::for_label_no_replacement(label).map(|e| e.name())));
    let want_nr = if want == Some("replacement") { None } else { want };
    let ok = match &got {
        Ok((a, b)) => *a == want && *b == want_nr,
        Err(_) => false,
    };
    if !ok {
        let msg = format!("label {:?} (hex {}): crate {:?}, Standard for_label {:?} / no_replacement {:?}", String::from_utf8_lossy(label), hex(label), got.as_ref().ok(), want, want_nr);
        let j = J::obj().set("engine", J::s("sweep")).set("function", J::s("for_label")).set("input", J::s(&hex(label))).set("detail", J::obj().set("message", J::s(&msg)));
        if vios.wants("C13", "label-resolution") {
            vios.add(Violation { prop: "C13".into(), kind: "label-resolution".into(), msg, replay: j });
        } else {
            vios.count_only("C13", "label-resolution");
        }
    }
}

pub fn replay(j: &J) -> Result<J, String> {
    let input = crate::imp::unhex(j.get("input").and_then(|x| x.as_str()).ok_or("input")?);
    let r = std::panic::catch_unwind(|| (Encoding::for_label(&input).map(|e| e.name()), Encoding::for_label_no_replacement(&input).map(|e| e.name())));
    Ok(J::obj().set("result", J::s(&format!("{:?}", r.ok()))))
}

pub fn run(tier: Tier) -> (Stats, VioSet) {
    let q = tier == Tier::Quick;
    let o = Oracle::new();
    let labels: Vec<Vec<u8>> = spec::data::data().labels.iter().map(|(l, _)| l.as_bytes().to_vec()).collect();
    // job list: closures over shards
    enum Job {
        Short(u8),          // all strings of length <= 3 starting with this byte (and shorter ones for byte 0)
        Label(usize),       // edit neighbourhood, case masks, paddings, lengthenings of one label
        Alpha(u8),          // all strings of length <= 4 over the label alphabet starting with this symbol
        Names,
    }
    let mut alpha: Vec<u8> = vec![];
    for l in &labels {
        for &b in l {
            if !alpha.contains(&b) {
                alpha.push(b);
            }
        }
    }
    alpha.sort();
    let mut jobs: Vec<Job> = vec![Job::Names];
    for b in 0..=255u8 {
        jobs.push(Job::Short(b));
    }
    for i in 0..labels.len() {
        jobs.push(Job::Label(i));
    }
    for &a in &alpha {
        jobs.push(Job::Alpha(a));
    }
    let outs = par_map(&jobs, 16, |job| {
        let mut stats = Stats::new();
        let mut vios = VioSet::default();
        match job {
            Job::Names => {
                check(&o, b"", &mut stats, &mut vios);
                for e in spec::all() {
                    stats.evaluations += 1;
                    let got = Encoding::for_label(e.name.as_bytes());
                    if got != Some(e.imp) {
                        let msg = format!("name {} does not resolve to its own encoding (got {:?})", e.name, got.map(|x| x.name()));
                        vios.add(Violation { prop: "C13".into(), kind: "name-is-not-a-label".into(), msg: msg.clone(), replay: J::obj().set("engine", J::s("sweep")).set("function", J::s("for_label")).set("input", J::s(&hex(e.name.as_bytes()))).set("detail", J::obj().set("message", J::s(&msg))) });
                    }
                    if e.imp.name() != e.name {
                        let msg = format!("static for {} reports name {}", e.name, e.imp.name());
                        vios.add(Violation { prop: "C13".into(), kind: "name-mismatch".into(), msg: msg.clone(), replay: J::obj().set("engine", J::s("sweep")).set("function", J::s("name")).set("input", J::s(&hex(e.name.as_bytes()))).set("detail", J::obj().set("message", J::s(&msg))) });
                    }
                }
                stats.samples.push(J::s("names: every name() resolves to its own instance"));
            }
            Job::Short(a) => {
                check(&o, &[*a], &mut stats, &mut vios);
                for b in 0..=255u8 {
                    check(&o, &[*a, b], &mut stats, &mut vios);
                    if !q || matches!(*a, 0x09 | 0x20 | 0x0B | b'l' | b'L' | b'8' | 0x00 | 0xC5) {
                        for c in 0..=255u8 {
                            check(&o, &[*a, b, c], &mut stats, &mut vios);
                        }
                    }
                }
            }
            Job::Label(i) => {
                let l = &labels[*i];
                // substitutions, insertions, deletions
                for p in 0..l.len() {
                    for b in 0..=255u8 {
                        if b != l[p] {
                            let mut s = l.clone();
                            s[p] = b;
                            check(&o, &s, &mut stats, &mut vios);
                        }
                    }
                    let mut s = l.clone();
                    s.remove(p);
                    check(&o, &s, &mut stats, &mut vios);
                }
                for p in 0..=l.len() {
                    for b in 0..=255u8 {
                        let mut s = l.clone();
                        s.insert(p, b);
                        check(&o, &s, &mut stats, &mut vios);
                    }
                }
                // case masks
                let letters: Vec<usize> = (0..l.len()).filter(|&p| l[p].is_ascii_alphabetic()).collect();
                if letters.len() <= 12 {
                    for m in 0..(1u32 << letters.len()) {
                        let mut s = l.clone();
                        for (bit, &p) in letters.iter().enumerate() {
                            if m & (1 << bit) != 0 {
                                s[p] = s[p].to_ascii_uppercase();
                            }
                        }
                        check(&o, &s, &mut stats, &mut vios);
                    }
                } else {
                    check(&o, &l.to_ascii_uppercase(), &mut stats, &mut vios);
                    for &p in &letters {
                        let mut s = l.clone();
                        s[p] = s[p].to_ascii_uppercase();
                        check(&o, &s, &mut stats, &mut vios);
                    }
                    let mut s = l.clone();
                    for (n, &p) in letters.iter().enumerate() {
                        if n % 2 == 0 {
                            s[p] = s[p].to_ascii_uppercase();
                        }
                    }
                    check(&o, &s, &mut stats, &mut vios);
                }
                // paddings by <= 2 characters on each side
                let pad: [u8; 9] = [0x09, 0x0A, 0x0C, 0x0D, 0x20, 0x0B, 0x00, 0x85, 0xA0];
                let mut pads: Vec<Vec<u8>> = vec![vec![]];
                for &a in &pad {
                    pads.push(vec![a]);
                    for &b in &pad {
                        pads.push(vec![a, b]);
                    }
                }
                for pre in &pads {
                    for post in &pads {
                        let mut s = pre.clone();
                        s.extend_from_slice(l);
                        s.extend_from_slice(post);
                        check(&o, &s, &mut stats, &mut vios);
                    }
                }
                // long paddings and lengthenings
                for n in [3usize, 8, 19, 20, 64, 300] {
                    let mut s = vec![0x20u8; n];
                    s.extend_from_slice(l);
                    check(&o, &s, &mut stats, &mut vios);
                    let mut s2 = l.clone();
                    s2.extend(std::iter::repeat(0x09u8).take(n));
                    check(&o, &s2, &mut stats, &mut vios);
                }
                for total in 19..=24usize {
                    if total > l.len() {
                        for fill in [b'x', b'-', l[l.len() - 1]] {
                            let mut s = l.clone();
                            while s.len() < total {
                                s.push(fill);
                            }
                            check(&o, &s, &mut stats, &mut vios);
                            let mut s2 = vec![fill; total - l.len()];
                            s2.extend_from_slice(l);
                            check(&o, &s2, &mut stats, &mut vios);
                        }
                    }
                }
                // internal whitespace
                for p in 1..l.len() {
                    let mut s = l.clone();
                    s.insert(p, 0x20);
                    check(&o, &s, &mut stats, &mut vios);
                }
                if *i == 0 {
                    stats.samples.push(J::obj().set("label", J::s(&String::from_utf8_lossy(l))).set("family", J::s("substitutions, insertions, deletions, case masks, paddings, lengthenings")));
                }
            }
            Job::Alpha(a) => {
                let n = alpha.len();
                let depth = if q { 3 } else { 4 };
                let mut idx = vec![0usize; depth - 1];
                // all strings a x1..x(depth-1) and their prefixes
                check(&o, &[*a], &mut stats, &mut vios);
                loop {
                    let mut s = vec![*a];
                    for &i in &idx {
                        s.push(alpha[i]);
                    }
                    check(&o, &s, &mut stats, &mut vios);
                    if idx.iter().skip(1).all(|&i| i == 0) {
                        check(&o, &s[..2], &mut stats, &mut vios);
                    }
                    if depth >= 4 && idx[2..].iter().all(|&i| i == 0) {
                        check(&o, &s[..3], &mut stats, &mut vios);
                    }
                    let mut p = depth - 2;
                    loop {
                        idx[p] += 1;
                        if idx[p] < n {
                            break;
                        }
                        idx[p] = 0;
                        if p == 0 {
                            return (stats, vios);
                        }
                        p -= 1;
                    }
                }
            }
        }
        (stats, vios)
    });
    let mut stats = Stats::new();
    let mut vios = VioSet::default();
    for (s, v) in outs {
        stats.merge(&s);
        vios.merge(v);
    }
    (stats, vios)
}
