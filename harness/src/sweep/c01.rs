//! C01: whole-stream decoding against the reference for complete input families.
use crate::checks::Tier;
use crate::drive::*;
use crate::imp::*;
use crate::json::J;
use crate::spec::dec::BomMode;
use crate::spec::{self, Enc, Kind, Tok};
use crate::x::*;

pub fn cfg_json(e: &Enc, sink: Sink, repl: bool, bom: &str) -> J {
    J::obj().set("engine", J::s("xdec")).set("encoding", J::s(e.name)).set("sink", J::s(sink.name())).set("repl", J::Bool(repl)).set("bom", J::s(bom))
}

/// `cut` values from CAPPED on mean: no cut, but every call gets the fixed capacity cut - CAPPED.
pub const CAPPED: usize = 1 << 20;

/// One stream, both forms, optional cut. Returns number of evaluations.
fn check_stream(e: &Enc, bytes: &[u8], cut: Option<usize>, stats: &mut Stats, vios: &mut VioSet) {
    let (reft, _) = spec::ref_decode_all(e, BomMode::Off, bytes);
    let nontrivial = reft.iter().any(|t| matches!(t, Tok::Err { .. } | Tok::Char(0x80..)));
    if nontrivial {
        stats.nontrivial += 1;
    }
    for (sink, repl) in [(Sink::Utf8, false), (Sink::Utf16, true)] {
        stats.evaluations += 1;
        let run = match cut {
            None => decode_stream_single(e, BomMode::Off, sink, repl, bytes),
            Some(c) if c >= CAPPED => decode_chunks_cap(e, BomMode::Off, sink, repl, &[bytes], true, Some((c - CAPPED).max(sink.min_cap()))),
            Some(c) => decode_chunks_ample(e, BomMode::Off, sink, repl, &[&bytes[..c], &bytes[c..]], true),
        };
        {
            let mut f = Fnv::new().bytes(bytes).u(cut.map(|c| c as u64 + 1).unwrap_or(0)).b(repl as u8).b(sink.is_utf16() as u8);
            if let Ok(r) = &run {
                for t in &r.toks {
                    f = match t {
                        Tok::Char(c) => f.u(*c as u64),
                        Tok::Err { start, end } => f.b(0xEE).u(*start as u64).u(*end as u64),
                    };
                }
            } else {
                f = f.s("panic");
            }
            describe(|| format!("{} {} repl {} stream {} cut {:?} -> {}", e.name, sink.name(), repl, hex(bytes), cut, run.as_ref().map(|r| toks_short(&r.toks)).unwrap_or_else(|e| e.clone())));
            stats.dig(&format!("dec/{}", e.name), f);
        }
        let want = if repl { fold_repl(&reft) } else { reft.clone() };
        let (got, problems) = match &run {
            Ok(r) => (Some(r.toks.clone()), r.problems.clone()),
            Err(_) => (None, vec![]),
        };
        if got.as_ref() != Some(&want) || !problems.is_empty() {
            let kind = if cut.is_some() { "two-chunk-vs-reference" } else { "single-vs-reference" };
            let msg = format!(
                "{} {} {}: stream {} cut {:?}: crate [{}] reference [{}] {}",
                e.name,
                sink.name(),
                if repl { "repl" } else { "norepl" },
                hex(bytes),
                cut,
                got.as_ref().map(|g| toks_short(g)).unwrap_or_else(|| format!("panic: {:?}", run.as_ref().err())),
                toks_short(&want),
                problems.join("; ")
            );
            let mut j = cfg_json(e, sink, repl, "off");
            let calls = match cut {
                None => vec![Call::new(bytes, bytes.len() * 4 + 64, true).to_json()],
                Some(c) if c >= CAPPED => vec![Call::new(bytes, (c - CAPPED).max(sink.min_cap()), true).to_json()],
                Some(c) => vec![Call::new(&bytes[..c], c * 4 + 64, false).to_json(), Call::new(&bytes[c..], (bytes.len() - c) * 4 + 64, true).to_json()],
            };
            j.put("calls", J::Arr(calls));
            j.put("loop", J::Bool(true));
            j.put("detail", J::obj().set("message", J::s(&msg)).set("stream", J::s(&hex(bytes))));
            if vios.wants("C01", kind) {
                vios.add(Violation { prop: "C01".into(), kind: kind.into(), msg, replay: j });
            } else {
                vios.count_only("C01", kind);
            }
        }
        // Malformed numbers in range (norepl)
        if let Ok(r) = &run {
            for o in &r.obs {
                if let Res::Malformed(len, after) = o.res {
                    if !(1..=4).contains(&len) || after > 3 || len + after > 6 {
                        let msg = format!("{}: stream {}: Malformed({},{}) outside the documented ranges", e.name, hex(bytes), len, after);
                        let mut j = cfg_json(e, sink, repl, "off");
                        j.put("calls", J::Arr(vec![Call::new(bytes, bytes.len() * 4 + 64, true).to_json()]));
                        j.put("detail", J::obj().set("message", J::s(&msg)));
                        vios.add(Violation { prop: "C01".into(), kind: "malformed-numbers-out-of-range".into(), msg, replay: j });
                    }
                }
            }
        }
    }
}

fn gb_four(p: u32) -> [u8; 4] {
    [(p / 12600 + 0x81) as u8, (p % 12600 / 1260 + 0x30) as u8, (p % 1260 / 10 + 0x81) as u8, (p % 10 + 0x30) as u8]
}

/// The families of one encoding, as a list of streams produced lazily into `f`.
pub fn families(e: &Enc, tier: Tier, f: &mut dyn FnMut(&[u8], Option<usize>)) {
    let q = tier == Tier::Quick;
    // (a) all 1- and 2-byte strings; two-byte ones also with the cut between the bytes
    for b in 0..=255u8 {
        f(&[b], None);
    }
    for a in 0..=255u8 {
        for b in 0..=255u8 {
            f(&[a, b], None);
            f(&[a, b], Some(1));
        }
    }
    // ASCII run of every length + the encoding's word symbols + ASCII suffix, with ample and
    // with limited per-call output (accelerated ASCII paths at every offset)
    {
        let words = crate::alphabet::dec_syms(e, false, true, &[]);
        let maxn = if q { 70 } else { 130 };
        for n in 0..=maxn {
            let run: Vec<u8> = (0..n).map(|i| b'a' + (i % 26) as u8).collect();
            for w in words.iter().filter(|w| w[0] >= 0x80 || w.len() > 1).take(if q { 10 } else { 40 }) {
                for suf in [0usize, 20] {
                    let mut s = run.clone();
                    s.extend_from_slice(w);
                    s.extend((0..suf).map(|i| b'A' + (i % 26) as u8));
                    f(&s, None);
                    for cap in [n + 4, (n / 2).max(4), 64, 48, 4] {
                        f(&s, Some(CAPPED + cap));
                    }
                }
            }
        }
    }
    // thorough: every 3-byte string (16.8 M per encoding), single call
    if !q {
        for a in 0..=255u8 {
            // single-byte encodings are memoryless: the 1- and 2-byte strings already cover them
            if matches!(e.kind, Kind::SingleByte(_) | Kind::UserDefined | Kind::Replacement) && a > 0 {
                break;
            }
            for b in 0..=255u8 {
                for c in 0..=255u8 {
                    f(&[a, b, c], None);
                }
            }
        }
    }
    // thorough: every 4-byte string behind a lead byte of the encodings with 3/4-byte forms
    if !q {
        let leads: Vec<u8> = match e.kind {
            Kind::Utf8 => (0xC0..=0xFFu8).collect(),
            Kind::Gb18030 => (0x81..=0xFFu8).collect(),
            Kind::EucJp => vec![0x8E, 0x8F],
            Kind::Iso2022Jp => vec![0x1B],
            _ => vec![],
        };
        for a in leads {
            for b in 0..=255u8 {
                // GBK shares the decoder with gb18030 and is covered by the smaller families
                for c in 0..=255u8 {
                    for d in 0..=255u8 {
                        f(&[a, b, c, d], None);
                    }
                }
            }
        }
    }
    // (b) structured families
    match e.kind {
        Kind::EucJp => {
            let step = if q { 5 } else { 1 };
            let mut x = 0usize;
            while x < 256 {
                for y in 0..=255u8 {
                    f(&[0x8F, x as u8, y], None);
                    if !q {
                        f(&[0x8F, x as u8, y], Some(2));
                    }
                }
                x += step;
            }
        }
        Kind::Gb18030 | Kind::Gbk => {
            // every range boundary pointer +-1 (both tiers)
            let d = crate::spec::data::data();
            let mut ptrs: Vec<u32> = vec![0, 1, 7456, 7457, 7458, 39418, 39419, 39420, 39421, 188999, 189000, 189001, 1237574, 1237575, 1237576, 1237577];
            for &(p, _) in &d.gb_ranges {
                for dp in [-1i64, 0, 1] {
                    let x = p as i64 + dp;
                    if x >= 0 {
                        ptrs.push(x as u32);
                    }
                }
            }
            for p in ptrs {
                if p / 12600 + 0x81 <= 0xFE {
                    let s = gb_four(p);
                    f(&s, None);
                    f(&s, Some(3));
                    f(&s, Some(1));
                }
            }
            if !q {
                for first in [0x81u8, 0x84, 0x8F, 0x90, 0xE3, 0xFE] {
                    for second in [0x2Fu8, 0x30, 0x31, 0x32, 0x33, 0x34, 0x35, 0x36, 0x37, 0x38, 0x39, 0x3A] {
                        for third in 0..=255u8 {
                            for fourth in [0x2Fu8, 0x30, 0x35, 0x39, 0x3A, 0x7F, 0x80, 0xFE, 0xFF] {
                                f(&[first, second, third, fourth], None);
                            }
                        }
                    }
                }
                // every BMP four-byte pointer
                for p in 0..39420u32 {
                    f(&gb_four(p), None);
                }
                // every well-formed four-byte form: 126 x 10 x 126 x 10
                for first in 0x81..=0xFEu8 {
                    for second in 0x30..=0x39u8 {
                        for third in 0x81..=0xFEu8 {
                            for fourth in 0x30..=0x39u8 {
                                f(&[first, second, third, fourth], None);
                            }
                        }
                    }
                }
                let mut p = 189000u32;
                while p <= 1237575 {
                    f(&gb_four(p), None);
                    p += 257;
                }
            }
        }
        Kind::Utf8 => {
            let leads3: &[u8] = if q { &[0xE0, 0xED, 0xEF] } else { &[0xE0, 0xE1, 0xEC, 0xED, 0xEE, 0xEF] };
            let reps: [u8; 12] = [0x00, 0x41, 0x7F, 0x80, 0x8F, 0x90, 0x9F, 0xA0, 0xBF, 0xC0, 0xE0, 0xFF];
            for &l in leads3 {
                for x in 0..=255u8 {
                    if q {
                        for &y in &reps {
                            f(&[l, x, y], None);
                        }
                    } else {
                        for y in 0..=255u8 {
                            f(&[l, x, y], None);
                        }
                    }
                }
            }
            for l in [0xF0u8, 0xF1, 0xF3, 0xF4, 0xF5] {
                for x in 0..=255u8 {
                    for &y in &reps {
                        for &z in &reps {
                            f(&[l, x, y, z], None);
                        }
                    }
                }
            }
        }
        Kind::Iso2022Jp => {
            let pre: [&[u8]; 4] = [b"", b"\x1B(J", b"\x1B(I", b"\x1B$B"];
            for p in pre.iter() {
                for x in 0..=255u8 {
                    let ys: Vec<u8> = if q { vec![0x00, 0x1B, 0x21, 0x28, 0x24, 0x40, 0x42, 0x49, 0x4A, 0x7E, 0x7F, 0x80, 0xFF] } else { (0..=255u8).collect() };
                    for y in ys {
                        let mut s = p.to_vec();
                        s.extend_from_slice(&[0x1B, x, y]);
                        f(&s, None);
                        if !q {
                            let n = s.len();
                            f(&s, Some(n - 1));
                        }
                    }
                }
            }
            // every escape followed by every (lead, trail) in 0x21..=0x7E
            let escs: [&[u8]; 5] = [b"\x1B(B", b"\x1B(J", b"\x1B(I", b"\x1B$@", b"\x1B$B"];
            for esc in escs.iter() {
                let step = if q { 7 } else { 1 };
                let mut l = 0x21usize;
                while l <= 0x7E {
                    for t in 0x21..=0x7Eu8 {
                        let mut s = esc.to_vec();
                        s.extend_from_slice(&[l as u8, t]);
                        f(&s, None);
                    }
                    l += step;
                }
            }
            // escape pairs
            for a in escs.iter() {
                for b in escs.iter() {
                    for tail in [&b""[..], b"A", b"\x21\x21", b"\x80"] {
                        let mut s = a.to_vec();
                        s.extend_from_slice(b);
                        s.extend_from_slice(tail);
                        f(&s, None);
                        for c in 1..s.len() {
                            f(&s, Some(c));
                        }
                    }
                }
            }
        }
        Kind::Utf16Be | Kind::Utf16Le => {
            let units: [u16; 10] = [0x0041, 0x00E9, 0xD7FF, 0xD800, 0xDBFF, 0xDC00, 0xDFFF, 0xE000, 0xFFFD, 0xFFFF];
            let be = e.kind == Kind::Utf16Be;
            let put = |v: &mut Vec<u8>, u: u16| {
                if be {
                    v.push((u >> 8) as u8);
                    v.push(u as u8);
                } else {
                    v.push(u as u8);
                    v.push((u >> 8) as u8);
                }
            };
            for &a in &units {
                for &b in &units {
                    for &c in &units {
                        let mut s = vec![];
                        put(&mut s, a);
                        put(&mut s, b);
                        put(&mut s, c);
                        f(&s, None);
                        f(&s[..5], None);
                        if !q {
                            for cut in 1..6 {
                                f(&s, Some(cut));
                            }
                        }
                    }
                }
            }
        }
        _ => {}
    }
}

pub fn run(tier: Tier) -> (Stats, VioSet) {
    let encs = spec::all();
    let outs = par_map(&encs, 16, |e| {
        let mut stats = Stats::new();
        let mut vios = VioSet::default();
        let mut sample: Option<Vec<u8>> = None;
        families(e, tier, &mut |b, cut| {
            if sample.is_none() && b.len() >= 2 && b[0] >= 0x80 {
                sample = Some(b.to_vec());
            }
            check_stream(e, b, cut, &mut stats, &mut vios);
        });
        if let Some(s) = sample {
            stats.samples.push(J::obj().set("encoding", J::s(e.name)).set("stream", J::s(&hex(&s))).set("reference_tokens", J::s(&toks_short(&spec::ref_decode_all(e, BomMode::Off, &s).0))));
        }
        (stats, vios)
    });
    let mut stats = Stats::new();
    let mut vios = VioSet::default();
    for (s, v) in outs {
        stats.merge(&s);
        vios.merge(v);
    }
    (stats, vios)
}
