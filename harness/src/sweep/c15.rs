//! C15 (+ C05 v, C06, C18 for mem): the mem conversions against std-based references over a
//! shape space of sources and destination lengths.
use crate::checks::Tier;
use crate::imp::{hex, hex16, panic_msg};
use crate::json::J;
use crate::x::*;
use encoding_rs::mem;
use std::borrow::Cow;
use std::panic::{catch_unwind, AssertUnwindSafe};

const G: usize = 24; // guard band (units)

pub struct Cx {
    pub stats: Stats,
    pub vios: VioSet,
    /// which property's oracle is armed: "C15", "C05", "C06", "C18"
    pub prop: &'static str,
    /// prior content of the &mut str destination of the call being evaluated
    pub cur_prior: Option<String>,
}

impl Cx {
    fn fail(&mut self, prop: &str, func: &str, kind: &str, input: String, dstlen: usize, msg: String) {
        let kind = format!("{}:{}", func, kind);
        let full = format!("{} src [{}] dst len {}: {}", func, input, dstlen, msg);
        let j = J::obj()
            .set("engine", J::s("sweep"))
            .set("function", J::s(func))
            .set("input_text", J::s(&input))
            .set("dst_len", J::i(dstlen))
            .set("prior", match (&self.cur_prior, func.contains("_to_str")) {
                (Some(p), true) => J::s(p),
                _ => J::Null,
            })
            .set("detail", J::obj().set("message", J::s(&full)));
        if self.vios.wants(prop, &kind) {
            self.vios.add(Violation { prop: prop.into(), kind, msg: full, replay: j });
        } else {
            self.vios.count_only(prop, &kind);
        }
    }
}

/// A u8 destination with guard bands, pre-fill and alignment.
struct D8 {
    buf: Vec<u8>,
    lo: usize,
    len: usize,
    fill: u8,
}
impl D8 {
    fn new(len: usize, fill: u8, align: usize) -> D8 {
        let mut buf = vec![0x5Cu8; G + 16 + len + G];
        let base = buf.as_ptr() as usize;
        let lo = G + (align + 16 - (base + G) % 16) % 16;
        for x in &mut buf[lo..lo + len] {
            *x = fill;
        }
        D8 { buf, lo, len, fill }
    }
    fn dst(&mut self) -> &mut [u8] {
        let (lo, len) = (self.lo, self.len);
        &mut self.buf[lo..lo + len]
    }
    fn get(&self) -> &[u8] {
        &self.buf[self.lo..self.lo + self.len]
    }
    fn guards_ok(&self) -> bool {
        self.buf[..self.lo].iter().all(|&x| x == 0x5C) && self.buf[self.lo + self.len..].iter().all(|&x| x == 0x5C)
    }
    fn beyond_untouched(&self, written: usize) -> bool {
        self.get()[written.min(self.len)..].iter().all(|&x| x == self.fill)
    }
}
struct D16 {
    buf: Vec<u16>,
    lo: usize,
    len: usize,
}
impl D16 {
    fn new(len: usize, fill: u16, align: usize) -> D16 {
        let mut buf = vec![0x5C5Cu16; G + 16 + len + G];
        let base = buf.as_ptr() as usize;
        let lo = G + ((align * 2 + 16 - (base + G * 2) % 16) % 16) / 2;
        for x in &mut buf[lo..lo + len] {
            *x = fill;
        }
        D16 { buf, lo, len }
    }
    fn dst(&mut self) -> &mut [u16] {
        let (lo, len) = (self.lo, self.len);
        &mut self.buf[lo..lo + len]
    }
    fn get(&self) -> &[u16] {
        &self.buf[self.lo..self.lo + self.len]
    }
    fn guards_ok(&self) -> bool {
        self.buf[..self.lo].iter().all(|&x| x == 0x5C5C) && self.buf[self.lo + self.len..].iter().all(|&x| x == 0x5C5C)
    }
}

fn src8<T>(s: &[u8], align: usize, f: impl FnOnce(&[u8]) -> T) -> T {
    crate::imp::with_aligned_src(s, align, f)
}
fn src16<T>(s: &[u16], align: usize, f: impl FnOnce(&[u16]) -> T) -> T {
    if align == 0 {
        let b: Box<[u16]> = s.to_vec().into_boxed_slice();
        return f(&b);
    }
    let mut buf = vec![0xDC00u16; s.len() + 16];
    let base = buf.as_ptr() as usize;
    let off = ((align * 2 + 16 - base % 16) % 16) / 2;
    buf[off..off + s.len()].copy_from_slice(s);
    f(&buf[off..off + s.len()])
}

/// encodeInto semantics: longest prefix of whole scalars whose UTF-8 fits.
fn oracle_utf16_partial(src: &[u16], dstlen: usize) -> (usize, Vec<u8>) {
    let mut read = 0;
    let mut out: Vec<u8> = vec![];
    let mut i = 0;
    while i < src.len() {
        let u = src[i];
        let (c, n) = if (0xD800..0xDC00).contains(&u) && i + 1 < src.len() && (0xDC00..0xE000).contains(&src[i + 1]) {
            (0x10000 + (((u as u32) - 0xD800) << 10) + (src[i + 1] as u32 - 0xDC00), 2)
        } else if (0xD800..0xE000).contains(&u) {
            (0xFFFD, 1)
        } else {
            (u as u32, 1)
        };
        let ch = char::from_u32(c).unwrap();
        if out.len() + ch.len_utf8() > dstlen {
            break;
        }
        let mut b = [0u8; 4];
        out.extend_from_slice(ch.encode_utf8(&mut b).as_bytes());
        i += n;
        read = i;
    }
    (read, out)
}

fn oracle_latin1_partial(src: &[u8], dstlen: usize) -> (usize, Vec<u8>) {
    let mut out = vec![];
    let mut read = 0;
    for &b in src {
        let n = if b < 0x80 { 1 } else { 2 };
        if out.len() + n > dstlen {
            break;
        }
        if b < 0x80 {
            out.push(b);
        } else {
            out.push((b >> 6) | 0xC0);
            out.push((b & 0x3F) | 0x80);
        }
        read += 1;
    }
    (read, out)
}

const PRIORS: [&str; 3] = ["é", "€", "😀"];

fn prior_str(len: usize, filler: &str, lead: usize) -> String {
    let mut p = String::new();
    for _ in 0..lead.min(len) {
        p.push('x');
    }
    while p.len() + filler.len() <= len {
        p.push_str(filler);
    }
    while p.len() < len {
        p.push('y');
    }
    p
}

// ---------------------------------------------------------------------------------------------

pub fn utf16_source(cx: &mut Cx, src: &[u16], aligns: &[usize], all_dst: bool) {
    let lossy: String = String::from_utf16_lossy(src);
    let input = hex16(src);
    let c15 = cx.prop == "C15" || cx.prop == "C06" || cx.prop == "C18";
    let fills: &[u8] = if cx.prop == "C18" { &[0xA5, 0x00, 0xFF] } else { &[0xA5] };
    // ---- convert_utf16_to_utf8_partial: every destination length
    if c15 {
        let maxd = src.len() * 3 + 1;
        let dsts: Vec<usize> = if all_dst { (0..=maxd).collect() } else { vec![0, 1, 2, 3, 4, src.len(), src.len() + 1, (src.len() * 3).saturating_sub(1), src.len() * 3, maxd] };
        for &dl in &dsts {
            for &al in aligns {
                let mut first: Option<(usize, usize, Vec<u8>)> = None;
                for &fill in fills {
                    cx.stats.evaluations += 1;
                    let mut d = D8::new(dl, fill, al);
                    let r = src16(src, al, |s| catch_unwind(AssertUnwindSafe(|| mem::convert_utf16_to_utf8_partial(s, d.dst()))));
                    {
                        let f = Fnv::new().s(&input);
                        let f = match &r { Ok((rd, wr)) => f.u(*rd as u64).u(*wr as u64).bytes(&d.get()[..(*wr).min(d.len)]), Err(_) => f.s("panic") };
                        describe(|| format!("convert_utf16_to_utf8_partial src [{}]", input));
                        cx.stats.dig("mem/convert_utf16_to_utf8_partial", f);
                    }
                    let (want_read, want) = oracle_utf16_partial(src, dl);
                    match r {
                        Ok((read, written)) => {
                            if !d.guards_ok() || written > dl || read > src.len() {
                                cx.fail("C06", "convert_utf16_to_utf8_partial", "out-of-bounds", input.clone(), dl, format!("read {} written {} guards intact {}", read, written, d.guards_ok()));
                                continue;
                            }
                            if cx.prop == "C15" && (read != want_read || written != want.len() || d.get()[..written] != want[..]) {
                                cx.fail("C15", "convert_utf16_to_utf8_partial", "wrong-result", input.clone(), dl, format!("(read {}, written {}, out {}) but as many whole characters as fit is (read {}, written {}, out {})", read, written, hex(&d.get()[..written]), want_read, want.len(), hex(&want)));
                            }
                            if cx.prop == "C15" && !d.beyond_untouched(written) {
                                cx.fail("C15", "convert_utf16_to_utf8_partial", "beyond-written-modified", input.clone(), dl, format!("bytes beyond written ({}) were modified: {}", written, hex(d.get())));
                            }
                            let cur = (read, written, d.get()[..written].to_vec());
                            match &first {
                                None => first = Some(cur),
                                Some(f) => {
                                    if *f != cur {
                                        cx.fail("C18", "convert_utf16_to_utf8_partial", "result-depends-on-prefill", input.clone(), dl, format!("fill {:02X}: {:?} vs {:?}", fill, cur, f));
                                    }
                                }
                            }
                        }
                        Err(e) => cx.fail("C06", "convert_utf16_to_utf8_partial", "panic", input.clone(), dl, panic_msg(e)),
                    }
                }
            }
        }
        // ---- convert_utf16_to_utf8: exact sufficient size and one less (must panic)
        for extra in [0usize, 5] {
            cx.stats.evaluations += 1;
            let dl = src.len() * 3 + extra;
            let mut d = D8::new(dl, 0xA5, 0);
            let r = src16(src, 0, |s| catch_unwind(AssertUnwindSafe(|| mem::convert_utf16_to_utf8(s, d.dst()))));
            {
                let f = Fnv::new().s(&input);
                let f = match &r { Ok(wr) => f.u(*wr as u64).bytes(&d.get()[..(*wr).min(d.len)]), Err(_) => f.s("panic") };
                describe(|| format!("convert_utf16_to_utf8 src [{}]", input));
                cx.stats.dig("mem/convert_utf16_to_utf8", f);
            }
            match r {
                Ok(w) => {
                    if !d.guards_ok() || w > dl {
                        cx.fail("C06", "convert_utf16_to_utf8", "out-of-bounds", input.clone(), dl, format!("written {}", w));
                    } else if cx.prop == "C15" && d.get()[..w] != *lossy.as_bytes() {
                        cx.fail("C15", "convert_utf16_to_utf8", "wrong-result", input.clone(), dl, format!("out {} expected {}", hex(&d.get()[..w]), hex(lossy.as_bytes())));
                    }
                }
                Err(e) => cx.fail("C06", "convert_utf16_to_utf8", "panic", input.clone(), dl, panic_msg(e)),
            }
        }
        if !src.is_empty() {
            cx.stats.evaluations += 1;
            let dl = src.len() * 3 - 1;
            let mut d = D8::new(dl, 0xA5, 0);
            let r = src16(src, 0, |s| catch_unwind(AssertUnwindSafe(|| mem::convert_utf16_to_utf8(s, d.dst()))));
            if r.is_ok() && cx.prop == "C15" {
                cx.fail("C15", "convert_utf16_to_utf8", "no-panic-on-short-destination", input.clone(), dl, "returned although the destination is shorter than documented".into());
            }
            if !d.guards_ok() {
                cx.fail("C06", "convert_utf16_to_utf8", "out-of-bounds", input.clone(), dl, "guard band overwritten".into());
            }
        }
        // ---- ensure_utf16_validity
        {
            cx.stats.evaluations += 1;
            let mut v: Vec<u16> = src.to_vec();
            let r = catch_unwind(AssertUnwindSafe(|| mem::ensure_utf16_validity(&mut v)));
            {
                let f = Fnv::new().s(&input);
                let f = match &r { Ok(()) => f.u16s(&v), Err(_) => f.s("panic") };
                describe(|| format!("ensure_utf16_validity src [{}]", input));
                cx.stats.dig("mem/ensure_utf16_validity", f);
            }
            let want: Vec<u16> = lossy.encode_utf16().collect();
            match r {
                Ok(()) => {
                    if cx.prop == "C15" && v != want {
                        cx.fail("C15", "ensure_utf16_validity", "wrong-result", input.clone(), src.len(), format!("gives {} expected {}", hex16(&v), hex16(&want)));
                    }
                }
                Err(e) => cx.fail("C06", "ensure_utf16_validity", "panic", input.clone(), src.len(), panic_msg(e)),
            }
        }
        // ---- copy_basic_latin_to_ascii
        {
            cx.stats.evaluations += 1;
            let mut d = D8::new(src.len(), 0xA5, 0);
            let r = src16(src, 0, |s| catch_unwind(AssertUnwindSafe(|| mem::copy_basic_latin_to_ascii(s, d.dst()))));
            {
                let f = Fnv::new().s(&input);
                let f = match &r { Ok(wr) => f.u(*wr as u64).bytes(&d.get()[..(*wr).min(d.len)]), Err(_) => f.s("panic") };
                describe(|| format!("copy_basic_latin_to_ascii src [{}]", input));
                cx.stats.dig("mem/copy_basic_latin_to_ascii", f);
            }
            let n = src.iter().position(|&u| u >= 0x80).unwrap_or(src.len());
            match r {
                Ok(w) => {
                    if !d.guards_ok() {
                        cx.fail("C06", "copy_basic_latin_to_ascii", "out-of-bounds", input.clone(), src.len(), "guard".into());
                    } else if cx.prop == "C15" && (w != n || d.get()[..n].iter().zip(src.iter()).any(|(a, b)| *a as u16 != *b)) {
                        cx.fail("C15", "copy_basic_latin_to_ascii", "wrong-result", input.clone(), src.len(), format!("returned {} expected {}", w, n));
                    }
                }
                Err(e) => cx.fail("C06", "copy_basic_latin_to_ascii", "panic", input.clone(), src.len(), panic_msg(e)),
            }
        }
        // ---- convert_utf16_to_latin1_lossy (defined for Latin1-range input only)
        if src.iter().all(|&u| u <= 0xFF) {
            cx.stats.evaluations += 1;
            let mut d = D8::new(src.len(), 0xA5, 0);
            let r = src16(src, 0, |s| catch_unwind(AssertUnwindSafe(|| mem::convert_utf16_to_latin1_lossy(s, d.dst()))));
            {
                let f = Fnv::new().s(&input);
                let f = match &r { Ok(()) => f.bytes(d.get()), Err(_) => f.s("panic") };
                describe(|| format!("convert_utf16_to_latin1_lossy src [{}]", input));
                cx.stats.dig("mem/convert_utf16_to_latin1_lossy", f);
            }
            match r {
                Ok(()) => {
                    if !d.guards_ok() {
                        cx.fail("C06", "convert_utf16_to_latin1_lossy", "out-of-bounds", input.clone(), src.len(), "guard".into());
                    } else if cx.prop == "C15" && d.get().iter().zip(src.iter()).any(|(a, b)| *a as u16 != *b) {
                        cx.fail("C15", "convert_utf16_to_latin1_lossy", "wrong-result", input.clone(), src.len(), hex(d.get()));
                    }
                }
                Err(e) => cx.fail("C06", "convert_utf16_to_latin1_lossy", "panic", input.clone(), src.len(), panic_msg(e)),
            }
        }
    }
    // ---- C05: &mut str destinations with adversarial prior contents
    if cx.prop == "C05" {
        let maxd = src.len() * 3 + 1;
        let dsts: Vec<usize> = if all_dst { (0..=maxd).collect() } else { vec![0, 1, 2, 3, 4, 7, 8, 15, 16, 17, src.len(), src.len() + 1, src.len() * 3, maxd] };
        for &dl in &dsts {
            for filler in PRIORS {
                for lead in 0..4 {
                    cx.stats.evaluations += 1;
                    let mut s = prior_str(dl, filler, lead);
                    cx.cur_prior = Some(s.clone());
                    let r = catch_unwind(AssertUnwindSafe(|| mem::convert_utf16_to_str_partial(src, &mut s)));
                    {
                        let f = Fnv::new().s(&input);
                        let f = match &r { Ok((rd, wr)) => f.u(*rd as u64).u(*wr as u64).bytes(&s.as_bytes()[..(*wr).min(s.len())]), Err(_) => f.s("panic") };
                        describe(|| format!("convert_utf16_to_str_partial src [{}]", input));
                        cx.stats.dig("mem/convert_utf16_to_str_partial", f);
                    }
                    let bytes = s.as_bytes().to_vec();
                    if std::str::from_utf8(&bytes).is_err() || bytes.len() != dl {
                        cx.fail("C05", "convert_utf16_to_str_partial", "destination-left-invalid", input.clone(), dl, format!("prior {:?}, result {:?}: the &mut str holds {}", prior_str(dl, filler, lead), r.as_ref().ok(), hex(&bytes)));
                    } else if let Ok((read, written)) = r {
                        let (wr, want) = oracle_utf16_partial(src, dl);
                        if read != wr || written != want.len() || bytes[..written.min(bytes.len())] != want[..] {
                            cx.fail("C15", "convert_utf16_to_str_partial", "wrong-result", input.clone(), dl, format!("(read {}, written {})", read, written));
                        }
                    }
                }
            }
        }
        for filler in PRIORS {
            cx.stats.evaluations += 1;
            let dl = src.len() * 3 + 2;
            let mut s = prior_str(dl, filler, 1);
            cx.cur_prior = Some(s.clone());
            let r = catch_unwind(AssertUnwindSafe(|| mem::convert_utf16_to_str(src, &mut s)));
            {
                let f = Fnv::new().s(&input);
                let f = match &r { Ok(wr) => f.u(*wr as u64).bytes(&s.as_bytes()[..(*wr).min(s.len())]), Err(_) => f.s("panic") };
                describe(|| format!("convert_utf16_to_str src [{}]", input));
                cx.stats.dig("mem/convert_utf16_to_str", f);
            }
            let bytes = s.as_bytes().to_vec();
            if std::str::from_utf8(&bytes).is_err() {
                cx.fail("C05", "convert_utf16_to_str", "destination-left-invalid", input.clone(), dl, format!("result {:?}: the &mut str holds {}", r.as_ref().ok(), hex(&bytes)));
            } else if let Ok(w) = r {
                if bytes[..w.min(bytes.len())] != *lossy.as_bytes() {
                    cx.fail("C15", "convert_utf16_to_str", "wrong-result", input.clone(), dl, "text differs".into());
                }
            }
        }
    }
}

pub fn utf8_source(cx: &mut Cx, src: &[u8], aligns: &[usize]) {
    if !(cx.prop == "C15" || cx.prop == "C06" || cx.prop == "C18") {
        return;
    }
    let input = hex(src);
    let lossy: Vec<u16> = String::from_utf8_lossy(src).encode_utf16().collect();
    let valid = std::str::from_utf8(src).ok();
    for &al in aligns {
        // ---- convert_utf8_to_utf16 (lossy), dst = len + 1
        for extra in [1usize, 4] {
            cx.stats.evaluations += 1;
            let dl = src.len() + extra;
            let mut d = D16::new(dl, 0xA5A5, al);
            let r = src8(src, al, |s| catch_unwind(AssertUnwindSafe(|| mem::convert_utf8_to_utf16(s, d.dst()))));
            {
                let f = Fnv::new().s(&input);
                let f = match &r { Ok(wr) => f.u(*wr as u64).u16s(&d.get()[..(*wr).min(d.len)]), Err(_) => f.s("panic") };
                describe(|| format!("convert_utf8_to_utf16 src [{}]", input));
                cx.stats.dig("mem/convert_utf8_to_utf16", f);
            }
            match r {
                Ok(w) => {
                    if !d.guards_ok() || w > dl {
                        cx.fail("C06", "convert_utf8_to_utf16", "out-of-bounds", input.clone(), dl, format!("written {}", w));
                    } else if cx.prop == "C15" && d.get()[..w] != lossy[..] {
                        cx.fail("C15", "convert_utf8_to_utf16", "wrong-result", input.clone(), dl, format!("out {} expected {}", hex16(&d.get()[..w]), hex16(&lossy)));
                    }
                }
                Err(e) => cx.fail("C06", "convert_utf8_to_utf16", "panic", input.clone(), dl, panic_msg(e)),
            }
        }
        // ---- without replacement, dst = len
        {
            cx.stats.evaluations += 1;
            let dl = src.len();
            let mut d = D16::new(dl, 0xA5A5, al);
            let r = src8(src, al, |s| catch_unwind(AssertUnwindSafe(|| mem::convert_utf8_to_utf16_without_replacement(s, d.dst()))));
            {
                let f = Fnv::new().s(&input);
                let f = match &r { Ok(Some(wr)) => f.u(*wr as u64).u16s(&d.get()[..(*wr).min(d.len)]), Ok(None) => f.s("none"), Err(_) => f.s("panic") };
                describe(|| format!("convert_utf8_to_utf16_without_replacement src [{}]", input));
                cx.stats.dig("mem/convert_utf8_to_utf16_without_replacement", f);
            }
            match r {
                Ok(res) => {
                    if !d.guards_ok() {
                        cx.fail("C06", "convert_utf8_to_utf16_without_replacement", "out-of-bounds", input.clone(), dl, "guard".into());
                    } else if cx.prop == "C15" {
                        match (res, valid) {
                            (Some(w), Some(_)) => {
                                if d.get()[..w.min(dl)] != lossy[..] {
                                    cx.fail("C15", "convert_utf8_to_utf16_without_replacement", "wrong-result", input.clone(), dl, "text differs".into());
                                }
                            }
                            (None, None) => {}
                            (a, _) => cx.fail("C15", "convert_utf8_to_utf16_without_replacement", "wrong-validity", input.clone(), dl, format!("returned {:?} for {} input", a, if valid.is_some() { "valid" } else { "invalid" })),
                        }
                    }
                }
                Err(e) => cx.fail("C06", "convert_utf8_to_utf16_without_replacement", "panic", input.clone(), dl, panic_msg(e)),
            }
        }
        if let Some(s) = valid {
            // ---- convert_str_to_utf16, dst = len
            cx.stats.evaluations += 1;
            let dl = src.len();
            let mut d = D16::new(dl, 0xA5A5, al);
            let r = catch_unwind(AssertUnwindSafe(|| mem::convert_str_to_utf16(s, d.dst())));
            {
                let f = Fnv::new().s(&input);
                let f = match &r { Ok(wr) => f.u(*wr as u64).u16s(&d.get()[..(*wr).min(d.len)]), Err(_) => f.s("panic") };
                describe(|| format!("convert_str_to_utf16 src [{}]", input));
                cx.stats.dig("mem/convert_str_to_utf16", f);
            }
            match r {
                Ok(w) => {
                    if !d.guards_ok() || w > dl {
                        cx.fail("C06", "convert_str_to_utf16", "out-of-bounds", input.clone(), dl, format!("written {}", w));
                    } else if cx.prop == "C15" && d.get()[..w] != lossy[..] {
                        cx.fail("C15", "convert_str_to_utf16", "wrong-result", input.clone(), dl, "text differs".into());
                    }
                }
                Err(e) => cx.fail("C06", "convert_str_to_utf16", "panic", input.clone(), dl, panic_msg(e)),
            }
            // ---- Latin1-range only: convert_utf8_to_latin1_lossy, encode_latin1_lossy
            if s.chars().all(|c| (c as u32) <= 0xFF) {
                cx.stats.evaluations += 2;
                let want: Vec<u8> = s.chars().map(|c| c as u32 as u8).collect();
                let mut d = D8::new(src.len(), 0xA5, al);
                let r = src8(src, al, |b| catch_unwind(AssertUnwindSafe(|| mem::convert_utf8_to_latin1_lossy(b, d.dst()))));
                {
                    let f = Fnv::new().s(&input);
                    let f = match &r { Ok(wr) => f.u(*wr as u64).bytes(&d.get()[..(*wr).min(d.len)]), Err(_) => f.s("panic") };
                    describe(|| format!("convert_utf8_to_latin1_lossy src [{}]", input));
                    cx.stats.dig("mem/convert_utf8_to_latin1_lossy", f);
                }
                match r {
                    Ok(w) => {
                        if !d.guards_ok() || w > src.len() {
                            cx.fail("C06", "convert_utf8_to_latin1_lossy", "out-of-bounds", input.clone(), src.len(), format!("written {}", w));
                        } else if cx.prop == "C15" && d.get()[..w] != want[..] {
                            cx.fail("C15", "convert_utf8_to_latin1_lossy", "wrong-result", input.clone(), src.len(), hex(&d.get()[..w]));
                        }
                    }
                    Err(e) => cx.fail("C06", "convert_utf8_to_latin1_lossy", "panic", input.clone(), src.len(), panic_msg(e)),
                }
                let r = catch_unwind(AssertUnwindSafe(|| mem::encode_latin1_lossy(s)));
                match r {
                    Ok(c) => {
                        let borrowed = matches!(c, Cow::Borrowed(_));
                        if cx.prop == "C15" && (c.as_ref() != &want[..] || borrowed != s.is_ascii()) {
                            cx.fail("C15", "encode_latin1_lossy", "wrong-result", input.clone(), 0, format!("borrowed {} out {}", borrowed, hex(c.as_ref())));
                        }
                    }
                    Err(e) => cx.fail("C06", "encode_latin1_lossy", "panic", input.clone(), 0, panic_msg(e)),
                }
            }
        }
    }
}

pub fn latin1_source(cx: &mut Cx, src: &[u8], aligns: &[usize], all_dst: bool) {
    let input = hex(src);
    let c15 = cx.prop == "C15" || cx.prop == "C06" || cx.prop == "C18";
    let full: Vec<u8> = oracle_latin1_partial(src, src.len() * 2).1;
    if c15 {
        let maxd = src.len() * 2 + 1;
        let dsts: Vec<usize> = if all_dst { (0..=maxd).collect() } else { vec![0, 1, 2, 3, src.len(), src.len() + 1, src.len() * 2, maxd] };
        for &dl in &dsts {
            for &al in aligns {
                cx.stats.evaluations += 1;
                let mut d = D8::new(dl, 0xA5, al);
                let r = src8(src, al, |s| catch_unwind(AssertUnwindSafe(|| mem::convert_latin1_to_utf8_partial(s, d.dst()))));
                {
                    let f = Fnv::new().s(&input);
                    let f = match &r { Ok((rd, wr)) => f.u(*rd as u64).u(*wr as u64).bytes(&d.get()[..(*wr).min(d.len)]), Err(_) => f.s("panic") };
                    describe(|| format!("convert_latin1_to_utf8_partial src [{}]", input));
                    cx.stats.dig("mem/convert_latin1_to_utf8_partial", f);
                }
                let (wr, want) = oracle_latin1_partial(src, dl);
                match r {
                    Ok((read, written)) => {
                        if !d.guards_ok() || written > dl || read > src.len() {
                            cx.fail("C06", "convert_latin1_to_utf8_partial", "out-of-bounds", input.clone(), dl, format!("read {} written {}", read, written));
                        } else if cx.prop == "C15" && (read != wr || written != want.len() || d.get()[..written] != want[..]) {
                            cx.fail("C15", "convert_latin1_to_utf8_partial", "wrong-result", input.clone(), dl, format!("(read {}, written {}) expected (read {}, written {})", read, written, wr, want.len()));
                        }
                    }
                    Err(e) => cx.fail("C06", "convert_latin1_to_utf8_partial", "panic", input.clone(), dl, panic_msg(e)),
                }
            }
        }
        for &al in aligns {
            // convert_latin1_to_utf8 with exact sufficient size
            cx.stats.evaluations += 3;
            let dl = src.len() * 2;
            let mut d = D8::new(dl, 0xA5, al);
            let r = src8(src, al, |s| catch_unwind(AssertUnwindSafe(|| mem::convert_latin1_to_utf8(s, d.dst()))));
            {
                let f = Fnv::new().s(&input);
                let f = match &r { Ok(wr) => f.u(*wr as u64).bytes(&d.get()[..(*wr).min(d.len)]), Err(_) => f.s("panic") };
                describe(|| format!("convert_latin1_to_utf8 src [{}]", input));
                cx.stats.dig("mem/convert_latin1_to_utf8", f);
            }
            match r {
                Ok(w) => {
                    if !d.guards_ok() || w > dl {
                        cx.fail("C06", "convert_latin1_to_utf8", "out-of-bounds", input.clone(), dl, format!("written {}", w));
                    } else if cx.prop == "C15" && d.get()[..w] != full[..] {
                        cx.fail("C15", "convert_latin1_to_utf8", "wrong-result", input.clone(), dl, hex(&d.get()[..w]));
                    }
                }
                Err(e) => cx.fail("C06", "convert_latin1_to_utf8", "panic", input.clone(), dl, panic_msg(e)),
            }
            // convert_latin1_to_utf16
            let mut d16 = D16::new(src.len(), 0xA5A5, al);
            let r = src8(src, al, |s| catch_unwind(AssertUnwindSafe(|| mem::convert_latin1_to_utf16(s, d16.dst()))));
            {
                let f = Fnv::new().s(&input);
                let f = match &r { Ok(()) => f.u16s(d16.get()), Err(_) => f.s("panic") };
                describe(|| format!("convert_latin1_to_utf16 src [{}]", input));
                cx.stats.dig("mem/convert_latin1_to_utf16", f);
            }
            match r {
                Ok(()) => {
                    if !d16.guards_ok() {
                        cx.fail("C06", "convert_latin1_to_utf16", "out-of-bounds", input.clone(), src.len(), "guard".into());
                    } else if cx.prop == "C15" && d16.get().iter().zip(src.iter()).any(|(a, b)| *a != *b as u16) {
                        cx.fail("C15", "convert_latin1_to_utf16", "wrong-result", input.clone(), src.len(), hex16(d16.get()));
                    }
                }
                Err(e) => cx.fail("C06", "convert_latin1_to_utf16", "panic", input.clone(), src.len(), panic_msg(e)),
            }
            // copy_ascii_to_ascii / copy_ascii_to_basic_latin
            let n = src.iter().position(|&b| b >= 0x80).unwrap_or(src.len());
            let mut d = D8::new(src.len(), 0xA5, al);
            let r = src8(src, al, |s| catch_unwind(AssertUnwindSafe(|| mem::copy_ascii_to_ascii(s, d.dst()))));
            {
                let f = Fnv::new().s(&input);
                let f = match &r { Ok(wr) => f.u(*wr as u64).bytes(&d.get()[..(*wr).min(d.len)]), Err(_) => f.s("panic") };
                describe(|| format!("copy_ascii_to_ascii src [{}]", input));
                cx.stats.dig("mem/copy_ascii_to_ascii", f);
            }
            match r {
                Ok(w) => {
                    if !d.guards_ok() {
                        cx.fail("C06", "copy_ascii_to_ascii", "out-of-bounds", input.clone(), src.len(), "guard".into());
                    } else if cx.prop == "C15" && (w != n || d.get()[..n] != src[..n]) {
                        cx.fail("C15", "copy_ascii_to_ascii", "wrong-result", input.clone(), src.len(), format!("returned {} expected {}", w, n));
                    }
                }
                Err(e) => cx.fail("C06", "copy_ascii_to_ascii", "panic", input.clone(), src.len(), panic_msg(e)),
            }
            let mut d16 = D16::new(src.len(), 0xA5A5, al);
            let r = src8(src, al, |s| catch_unwind(AssertUnwindSafe(|| mem::copy_ascii_to_basic_latin(s, d16.dst()))));
            {
                let f = Fnv::new().s(&input);
                let f = match &r { Ok(wr) => f.u(*wr as u64).u16s(&d16.get()[..(*wr).min(d16.len)]), Err(_) => f.s("panic") };
                describe(|| format!("copy_ascii_to_basic_latin src [{}]", input));
                cx.stats.dig("mem/copy_ascii_to_basic_latin", f);
            }
            match r {
                Ok(w) => {
                    if !d16.guards_ok() {
                        cx.fail("C06", "copy_ascii_to_basic_latin", "out-of-bounds", input.clone(), src.len(), "guard".into());
                    } else if cx.prop == "C15" && (w != n || d16.get()[..n].iter().zip(src.iter()).any(|(a, b)| *a != *b as u16)) {
                        cx.fail("C15", "copy_ascii_to_basic_latin", "wrong-result", input.clone(), src.len(), format!("returned {} expected {}", w, n));
                    }
                }
                Err(e) => cx.fail("C06", "copy_ascii_to_basic_latin", "panic", input.clone(), src.len(), panic_msg(e)),
            }
        }
        // short destinations must panic for the asserting functions
        if !src.is_empty() && cx.prop == "C15" {
            cx.stats.evaluations += 2;
            let mut d = D8::new(src.len() * 2 - 1, 0xA5, 0);
            if catch_unwind(AssertUnwindSafe(|| mem::convert_latin1_to_utf8(src, d.dst()))).is_ok() {
                cx.fail("C15", "convert_latin1_to_utf8", "no-panic-on-short-destination", input.clone(), src.len() * 2 - 1, "returned".into());
            }
            let mut d = D8::new(src.len() - 1, 0xA5, 0);
            if catch_unwind(AssertUnwindSafe(|| mem::copy_ascii_to_ascii(src, d.dst()))).is_ok() {
                cx.fail("C15", "copy_ascii_to_ascii", "no-panic-on-short-destination", input.clone(), src.len() - 1, "returned".into());
            }
            if !d.guards_ok() {
                cx.fail("C06", "copy_ascii_to_ascii", "out-of-bounds", input.clone(), src.len() - 1, "guard".into());
            }
        }
        // decode_latin1
        {
            cx.stats.evaluations += 1;
            let r = catch_unwind(AssertUnwindSafe(|| mem::decode_latin1(src)));
            match r {
                Ok(c) => {
                    let borrowed = matches!(c, Cow::Borrowed(_));
                    let ok_text = c.as_bytes() == &full[..];
                    let aliased = match &c {
                        Cow::Borrowed(s) => s.as_ptr() == src.as_ptr() && s.len() == src.len(),
                        _ => true,
                    };
                    if cx.prop == "C15" && (!ok_text || borrowed != src.is_ascii() || !aliased) {
                        cx.fail("C15", "decode_latin1", "wrong-result", input.clone(), 0, format!("borrowed {} text ok {}", borrowed, ok_text));
                    }
                }
                Err(e) => cx.fail("C06", "decode_latin1", "panic", input.clone(), 0, panic_msg(e)),
            }
        }
    }
    if cx.prop == "C05" {
        let maxd = src.len() * 2 + 1;
        let dsts: Vec<usize> = if all_dst { (0..=maxd).collect() } else { vec![0, 1, 2, 3, 4, 7, 8, 15, 16, 17, src.len(), src.len() + 1, src.len() * 2, maxd] };
        for &dl in &dsts {
            for filler in PRIORS {
                for lead in 0..4 {
                    cx.stats.evaluations += 1;
                    let mut s = prior_str(dl, filler, lead);
                    cx.cur_prior = Some(s.clone());
                    let r = catch_unwind(AssertUnwindSafe(|| mem::convert_latin1_to_str_partial(src, &mut s)));
                    {
                        let f = Fnv::new().s(&input);
                        let f = match &r { Ok((rd, wr)) => f.u(*rd as u64).u(*wr as u64).bytes(&s.as_bytes()[..(*wr).min(s.len())]), Err(_) => f.s("panic") };
                        describe(|| format!("convert_latin1_to_str_partial src [{}]", input));
                        cx.stats.dig("mem/convert_latin1_to_str_partial", f);
                    }
                    let bytes = s.as_bytes().to_vec();
                    if std::str::from_utf8(&bytes).is_err() || bytes.len() != dl {
                        cx.fail("C05", "convert_latin1_to_str_partial", "destination-left-invalid", input.clone(), dl, format!("result {:?}: the &mut str holds {}", r.as_ref().ok(), hex(&bytes)));
                    }
                }
            }
        }
        for filler in PRIORS {
            cx.stats.evaluations += 2;
            let dl = src.len() * 2 + 3;
            let mut s = prior_str(dl, filler, 1);
            cx.cur_prior = Some(s.clone());
            let r = catch_unwind(AssertUnwindSafe(|| mem::convert_latin1_to_str(src, &mut s)));
            {
                let f = Fnv::new().s(&input);
                let f = match &r { Ok(wr) => f.u(*wr as u64).bytes(&s.as_bytes()[..(*wr).min(s.len())]), Err(_) => f.s("panic") };
                describe(|| format!("convert_latin1_to_str src [{}]", input));
                cx.stats.dig("mem/convert_latin1_to_str", f);
            }
            let bytes = s.as_bytes().to_vec();
            if std::str::from_utf8(&bytes).is_err() {
                cx.fail("C05", "convert_latin1_to_str", "destination-left-invalid", input.clone(), dl, format!("result {:?}: {}", r.as_ref().ok(), hex(&bytes)));
            }
            let c = mem::decode_latin1(src);
            if std::str::from_utf8(c.as_bytes()).is_err() {
                cx.fail("C05", "decode_latin1", "returned-invalid-str", input.clone(), 0, "invalid".into());
            }
        }
    }
}

// ---------------------------------------------------------------------------------------------
// shape space

fn plant16(len: usize, filler: &[u16], pos: usize, planted: &[u16]) -> Vec<u16> {
    let mut v = vec![];
    for i in 0..len {
        if i == pos {
            v.extend_from_slice(planted);
        } else {
            v.extend_from_slice(filler);
        }
    }
    v
}

pub fn run(tier: Tier, prop: &'static str) -> (Stats, VioSet) {
    let q = tier == Tier::Quick;
    let maxlen: usize = if q { 72 } else { 160 };
    let aligns: Vec<usize> = if q { vec![0, 1] } else { vec![0, 1, 7, 15] };
    let lens: Vec<usize> = (0..=maxlen).collect();
    let outs = par_map(&lens, 16, |&len| {
        let mut cx = Cx { stats: Stats::new(), vios: VioSet::default(), prop, cur_prior: None };
        let fill16: [&[u16]; 4] = [&[0x61], &[0xE9], &[0x3042], &[0xD83D, 0xDE00]];
        let plant16s: [&[u16]; 28] = [&[0xDFFF], &[0xDBFF], &[0xDFFF, 0xD800], &[0xD800, 0xE000], &[0xDBFF, 0xE3FF], &[0xD800, 0xE400], &[0xD800, 0xD7FF], &[0xDBFF, 0xFFFF], &[0xDC00, 0xE000], &[0xD800, 0x7F], &[0xD800, 0x80], &[0xDBFF, 0xD800, 0xDC00], &[0xE000], &[0xD800, 0xDFFF], &[0xDBFF, 0xDFFF], &[0xDBFF, 0xDC00], &[0xD800], &[0xDC00], &[0xDC00, 0xD800], &[0xE9], &[0xD83D, 0xDE00], &[0x3042], &[0x61], &[0xD83D, 0xDE00, 0xDC00], &[0xD83D, 0xDE00, 0xDC00, 0xDC00], &[0xD83D, 0xDE00, 0x20, 0xDC00], &[0xD83D, 0xDE00, 0x20], &[0xD83D, 0xD83D, 0xDE00]];
        // all destination lengths only for short sources (cost) in quick
        let all_dst = len <= if q { 24 } else { 64 };
        for f in fill16.iter() {
            utf16_source(&mut cx, &plant16(len, f, usize::MAX, &[]), &aligns, all_dst);
            for pos in 0..len {
                for p in plant16s.iter() {
                    if *p == *f {
                        continue;
                    }
                    utf16_source(&mut cx, &plant16(len, f, pos, p), &aligns[..1], all_dst && (pos % 4 == 0 || pos + 4 >= len || !q));
                }
            }
        }
        let fill8: [&[u8]; 4] = [b"a", "é".as_bytes(), "あ".as_bytes(), "😀".as_bytes()];
        let plant8: [&[u8]; 14] = [&[0x80], &[0xC0, 0x80], &[0xC2], &[0xE0, 0x80, 0x80], &[0xE0, 0xA0], &[0xED, 0xA0, 0x80], &[0xF0, 0x90, 0x80], &[0xF4, 0x90, 0x80, 0x80], &[0xFF], "é".as_bytes(), "ÿ".as_bytes(), "あ".as_bytes(), "😀".as_bytes(), b"a"];
        for f in fill8.iter() {
            let plain: Vec<u8> = (0..len).flat_map(|_| f.iter().copied()).collect();
            utf8_source(&mut cx, &plain, &aligns);
            for pos in 0..len {
                for p in plant8.iter() {
                    let mut v: Vec<u8> = vec![];
                    for i in 0..len {
                        if i == pos {
                            v.extend_from_slice(p);
                        } else {
                            v.extend_from_slice(f);
                        }
                    }
                    utf8_source(&mut cx, &v, &aligns[..1]);
                }
            }
        }
        for f in [b'a', 0xE9u8] {
            let plain = vec![f; len];
            latin1_source(&mut cx, &plain, &aligns, all_dst);
            for pos in 0..len {
                for p in [0x80u8, 0xFF, b'z', 0xC3] {
                    let mut v = plain.clone();
                    v[pos] = p;
                    latin1_source(&mut cx, &v, &aligns[..1], all_dst && (pos % 4 == 0 || pos + 4 >= len || !q));
                }
            }
        }
        if len == 17 {
            cx.stats.samples.push(J::obj().set("function", J::s("convert_utf16_to_utf8_partial")).set("src", J::s("16 x U+3042 with D800 planted at position 3")).set("dst_lengths", J::s("0..=3*len+1")));
        }
        cx.stats.nontrivial = cx.stats.evaluations;
        (cx.stats, cx.vios)
    });
    let mut stats = Stats::new();
    let mut vios = VioSet::default();
    for (s, v) in outs {
        stats.merge(&s);
        vios.merge(v);
    }
    (stats, vios)
}
