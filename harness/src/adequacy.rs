//! Alphabet adequacy (DESIGN.md section 3.4): on the reference decoder alone, the class alphabet
//! must produce the same set of *transition shapes* as the full 256-byte alphabet:
//! (abstract state before, kinds of tokens emitted by one byte, abstract state after).
//! A missing shape is a machinery error (the alphabet would hide a control-flow class), never a
//! verdict about the crate.
use crate::spec::dec::{JpState, RTok, RefDec};
use crate::spec::Enc;
use std::collections::{BTreeSet, HashSet, VecDeque};

fn abs_state(d: &RefDec) -> String {
    match d {
        RefDec::SingleByte { .. } | RefDec::UserDefined => "-".into(),
        RefDec::Replacement { done } => format!("done{}", *done as u8),
        RefDec::Utf8 { seen, need, lo, hi, .. } => format!("need{} seen{} lo{:02X} hi{:02X}", need, seen, lo, hi),
        RefDec::Utf16 { lead_byte, surr, .. } => format!("lb{} surr{}", lead_byte.is_some() as u8, surr.is_some() as u8),
        RefDec::Big5 { lead } | RefDec::EucKr { lead } | RefDec::ShiftJis { lead } => format!("lead{}", (*lead != 0) as u8),
        RefDec::EucJp { lead, jis0212 } => format!(
            "lead{} j{}",
            match *lead {
                0 => "0",
                0x8E => "8E",
                0x8F => "8F",
                _ => "x",
            },
            *jis0212 as u8
        ),
        RefDec::Gb18030 { first, second, third } => format!("f{} s{} t{}", (*first != 0) as u8, (*second != 0) as u8, (*third != 0) as u8),
        RefDec::Iso2022Jp { state, out, lead, flag } => format!(
            "{:?}/{:?}/flag{}/lead{}",
            state,
            out,
            *flag as u8,
            match state {
                JpState::Esc => format!("{:02X}", lead),
                _ => "-".into(),
            }
        ),
    }
}

fn tok_kind(t: &RTok) -> String {
    match t {
        RTok::Char(c) => {
            let l = if *c < 0x80 {
                1
            } else if *c < 0x800 {
                2
            } else if *c < 0x10000 {
                3
            } else {
                4
            };
            format!("C{}", l)
        }
        RTok::Err { start_back, end_back } => format!("E{}p{}", start_back - end_back, end_back),
    }
}

/// All shapes reachable when every step feeds one byte of `bytes_of_symbols` (symbols are fed
/// byte by byte from any reachable state; `allowed` = the bytes that may be fed).
fn tok_sig(toks: &[RTok]) -> u64 {
    let mut h: u64 = toks.len() as u64;
    for t in toks {
        let k: u64 = match t {
            RTok::Char(c) => {
                if *c < 0x80 {
                    1
                } else if *c < 0x800 {
                    2
                } else if *c < 0x10000 {
                    3
                } else {
                    4
                }
            }
            RTok::Err { start_back, end_back } => 16 + ((*start_back as u64) << 4) + *end_back as u64,
        };
        h = h.wrapping_mul(1099511628211).wrapping_add(k);
    }
    h
}

fn shapes(e: &Enc, symbols: Option<&[Vec<u8>]>) -> BTreeSet<String> {
    use std::collections::HashMap;
    let mut out = BTreeSet::new();
    // concrete state -> id of its abstract state
    let mut abs_ids: HashMap<String, u32> = HashMap::new();
    let mut abs_names: Vec<String> = vec![];
    let mut seen: HashMap<RefDec, u32> = HashMap::new();
    let mut sig_seen: HashSet<(u32, u64, u32)> = HashSet::new();
    let mut q: VecDeque<RefDec> = VecDeque::new();
    let mut intern = |d: &RefDec, abs_ids: &mut HashMap<String, u32>, abs_names: &mut Vec<String>| -> u32 {
        let a = abs_state(d);
        if let Some(&i) = abs_ids.get(&a) {
            return i;
        }
        let i = abs_names.len() as u32;
        abs_names.push(a.clone());
        abs_ids.insert(a, i);
        i
    };
    let start = e.ref_decoder();
    let sid = intern(&start, &mut abs_ids, &mut abs_names);
    seen.insert(start.clone(), sid);
    q.push_back(start);
    let all: Vec<Vec<u8>> = (0..=255u8).map(|b| vec![b]).collect();
    let syms: &[Vec<u8>] = symbols.unwrap_or(&all);
    let mut tmp = vec![];
    while let Some(s) = q.pop_front() {
        let s_abs = seen[&s];
        {
            let mut d = s.clone();
            tmp.clear();
            d.eof(&mut tmp);
            if sig_seen.insert((s_abs, tok_sig(&tmp) ^ 0xE0F, u32::MAX)) {
                out.insert(format!("{} --eof--> [{}]", abs_names[s_abs as usize], tmp.iter().map(tok_kind).collect::<Vec<_>>().join(" ")));
            }
        }
        for sym in syms {
            let mut d = s.clone();
            let mut before = s_abs;
            for &b in sym {
                tmp.clear();
                d.feed(b, 0, &mut tmp);
                let after = match seen.get(&d) {
                    Some(&i) => i,
                    None => {
                        let i = intern(&d, &mut abs_ids, &mut abs_names);
                        seen.insert(d.clone(), i);
                        q.push_back(d.clone());
                        i
                    }
                };
                if sig_seen.insert((before, tok_sig(&tmp), after)) {
                    out.insert(format!("{} --byte--> [{}] {}", abs_names[before as usize], tmp.iter().map(tok_kind).collect::<Vec<_>>().join(" "), abs_names[after as usize]));
                }
                before = after;
            }
        }
        if seen.len() > 3_000_000 {
            break;
        }
    }
    out
}

/// Returns the shapes the class alphabet misses (empty = adequate) and the number of shapes.
pub fn check(e: &Enc, class_syms: &[Vec<u8>]) -> (Vec<String>, usize) {
    let full = shapes(e, None);
    let class = shapes(e, Some(class_syms));
    let missing: Vec<String> = full.difference(&class).cloned().collect();
    (missing, full.len())
}
