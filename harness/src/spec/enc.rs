//! Reference encoders: the Encoding Standard's encoder algorithms (DESIGN.md Appendix B).
use super::data::{data, gb_ranges_pointer};

#[derive(Clone, Copy, PartialEq, Eq, Hash, Debug)]
pub enum ETok {
    Byte(u8),
    Unmappable(u32),
}

#[derive(Clone, Copy, PartialEq, Eq, Hash, Debug)]
pub enum JpEnc {
    Ascii,
    Roman,
    Jis0208,
}

#[derive(Clone, PartialEq, Eq, Hash, Debug)]
pub enum RefEnc {
    Utf8,
    SingleByte { idx: u8 },
    UserDefined,
    Big5,
    EucKr,
    ShiftJis,
    EucJp,
    Gb18030 { gbk: bool },
    Iso2022Jp { state: JpEnc },
}

const GB2022: [(u32, [u8; 2]); 18] = [
    (0xE78D, [0xA6, 0xD9]),
    (0xE78E, [0xA6, 0xDA]),
    (0xE78F, [0xA6, 0xDB]),
    (0xE790, [0xA6, 0xDC]),
    (0xE791, [0xA6, 0xDD]),
    (0xE792, [0xA6, 0xDE]),
    (0xE793, [0xA6, 0xDF]),
    (0xE794, [0xA6, 0xEC]),
    (0xE795, [0xA6, 0xED]),
    (0xE796, [0xA6, 0xF3]),
    (0xE81E, [0xFE, 0x59]),
    (0xE826, [0xFE, 0x61]),
    (0xE82B, [0xFE, 0x66]),
    (0xE82C, [0xFE, 0x67]),
    (0xE832, [0xFE, 0x6D]),
    (0xE843, [0xFE, 0x7E]),
    (0xE854, [0xFE, 0x90]),
    (0xE864, [0xFE, 0xA0]),
];

fn bytes(out: &mut Vec<ETok>, bs: &[u8]) {
    for &b in bs {
        out.push(ETok::Byte(b));
    }
}

impl RefEnc {
    pub fn is_ascii_state(&self) -> bool {
        !matches!(self, RefEnc::Iso2022Jp { state } if *state != JpEnc::Ascii)
    }

    /// Encode one scalar value.
    pub fn push(&mut self, c: u32, out: &mut Vec<ETok>) {
        let d = data();
        match self {
            RefEnc::Utf8 => {
                let ch = char::from_u32(c).expect("scalar");
                let mut buf = [0u8; 4];
                bytes(out, ch.encode_utf8(&mut buf).as_bytes());
            }
            RefEnc::SingleByte { idx } => {
                if c < 0x80 {
                    out.push(ETok::Byte(c as u8));
                } else if let Some(&p) = d.single_byte_rev[*idx as usize].get(&c) {
                    out.push(ETok::Byte(0x80 + p));
                } else {
                    out.push(ETok::Unmappable(c));
                }
            }
            RefEnc::UserDefined => {
                if c < 0x80 {
                    out.push(ETok::Byte(c as u8));
                } else if (0xF780..=0xF7FF).contains(&c) {
                    out.push(ETok::Byte((c - 0xF780 + 0x80) as u8));
                } else {
                    out.push(ETok::Unmappable(c));
                }
            }
            RefEnc::Big5 => {
                if c < 0x80 {
                    out.push(ETok::Byte(c as u8));
                } else if let Some(&p) = d.big5_rev.get(&c) {
                    let lead = p / 157 + 0x81;
                    let t = p % 157;
                    let trail = t + if t < 0x3F { 0x40 } else { 0x62 };
                    bytes(out, &[lead as u8, trail as u8]);
                } else {
                    out.push(ETok::Unmappable(c));
                }
            }
            RefEnc::EucKr => {
                if c < 0x80 {
                    out.push(ETok::Byte(c as u8));
                } else if let Some(&p) = d.euc_kr_rev.get(&c) {
                    bytes(out, &[(p / 190 + 0x81) as u8, (p % 190 + 0x41) as u8]);
                } else {
                    out.push(ETok::Unmappable(c));
                }
            }
            RefEnc::ShiftJis => {
                if c <= 0x80 {
                    out.push(ETok::Byte(c as u8));
                } else if c == 0xA5 {
                    out.push(ETok::Byte(0x5C));
                } else if c == 0x203E {
                    out.push(ETok::Byte(0x7E));
                } else if (0xFF61..=0xFF9F).contains(&c) {
                    out.push(ETok::Byte((c - 0xFF61 + 0xA1) as u8));
                } else {
                    let cc = if c == 0x2212 { 0xFF0D } else { c };
                    if let Some(&p) = d.sjis_rev.get(&cc) {
                        let l = p / 188;
                        let lead = l + if l < 0x1F { 0x81 } else { 0xC1 };
                        let t = p % 188;
                        let trail = t + if t < 0x3F { 0x40 } else { 0x41 };
                        bytes(out, &[lead as u8, trail as u8]);
                    } else {
                        out.push(ETok::Unmappable(c));
                    }
                }
            }
            RefEnc::EucJp => {
                if c < 0x80 {
                    out.push(ETok::Byte(c as u8));
                } else if c == 0xA5 {
                    out.push(ETok::Byte(0x5C));
                } else if c == 0x203E {
                    out.push(ETok::Byte(0x7E));
                } else if (0xFF61..=0xFF9F).contains(&c) {
                    bytes(out, &[0x8E, (c - 0xFF61 + 0xA1) as u8]);
                } else {
                    let cc = if c == 0x2212 { 0xFF0D } else { c };
                    if let Some(&p) = d.jis0208_rev.get(&cc) {
                        let lead = p / 94 + 0xA1;
                        let trail = p % 94 + 0xA1;
                        assert!(lead <= 0xFE, "EUC-JP lead out of range for U+{:X}", c);
                        bytes(out, &[lead as u8, trail as u8]);
                    } else {
                        out.push(ETok::Unmappable(c));
                    }
                }
            }
            RefEnc::Gb18030 { gbk } => {
                if c < 0x80 {
                    out.push(ETok::Byte(c as u8));
                } else if c == 0xE5E5 {
                    out.push(ETok::Unmappable(c));
                } else if *gbk && c == 0x20AC {
                    out.push(ETok::Byte(0x80));
                } else if let Some(row) = GB2022.iter().find(|r| r.0 == c) {
                    bytes(out, &row.1);
                } else if let Some(&p) = d.gb18030_rev.get(&c) {
                    let lead = p / 190 + 0x81;
                    let t = p % 190;
                    let trail = t + if t < 0x3F { 0x40 } else { 0x41 };
                    bytes(out, &[lead as u8, trail as u8]);
                } else if *gbk {
                    out.push(ETok::Unmappable(c));
                } else {
                    let p = gb_ranges_pointer(c);
                    let b1 = p / 12600 + 0x81;
                    let b2 = p % 12600 / 1260 + 0x30;
                    let b3 = p % 1260 / 10 + 0x81;
                    let b4 = p % 10 + 0x30;
                    bytes(out, &[b1 as u8, b2 as u8, b3 as u8, b4 as u8]);
                }
            }
            RefEnc::Iso2022Jp { state } => {
                // loop models "restore code point to ioQueue" + re-run
                let mut c = c;
                loop {
                    if (*state == JpEnc::Ascii || *state == JpEnc::Roman) && (c == 0x0E || c == 0x0F || c == 0x1B) {
                        out.push(ETok::Unmappable(0xFFFD));
                        return;
                    }
                    if *state == JpEnc::Ascii && c < 0x80 {
                        out.push(ETok::Byte(c as u8));
                        return;
                    }
                    if *state == JpEnc::Roman && ((c < 0x80 && c != 0x5C && c != 0x7E) || c == 0xA5 || c == 0x203E) {
                        if c < 0x80 {
                            out.push(ETok::Byte(c as u8));
                        } else if c == 0xA5 {
                            out.push(ETok::Byte(0x5C));
                        } else {
                            out.push(ETok::Byte(0x7E));
                        }
                        return;
                    }
                    if c < 0x80 && *state != JpEnc::Ascii {
                        *state = JpEnc::Ascii;
                        bytes(out, &[0x1B, 0x28, 0x42]);
                        continue;
                    }
                    if (c == 0xA5 || c == 0x203E) && *state != JpEnc::Roman {
                        *state = JpEnc::Roman;
                        bytes(out, &[0x1B, 0x28, 0x4A]);
                        continue;
                    }
                    let orig = c;
                    if c == 0x2212 {
                        c = 0xFF0D;
                    }
                    if (0xFF61..=0xFF9F).contains(&c) {
                        c = d.katakana[(c - 0xFF61) as usize];
                    }
                    match d.jis0208_rev.get(&c) {
                        None => {
                            if *state == JpEnc::Jis0208 {
                                *state = JpEnc::Ascii;
                                bytes(out, &[0x1B, 0x28, 0x42]);
                                c = orig;
                                continue;
                            }
                            out.push(ETok::Unmappable(orig));
                            return;
                        }
                        Some(&p) => {
                            if *state != JpEnc::Jis0208 {
                                *state = JpEnc::Jis0208;
                                bytes(out, &[0x1B, 0x24, 0x42]);
                                c = orig;
                                continue;
                            }
                            let lead = p / 94 + 0x21;
                            let trail = p % 94 + 0x21;
                            assert!(lead <= 0x7E, "ISO-2022-JP lead out of range for U+{:X}", orig);
                            bytes(out, &[lead as u8, trail as u8]);
                            return;
                        }
                    }
                }
            }
        }
    }

    /// End of stream.
    pub fn finish(&mut self, out: &mut Vec<ETok>) {
        if let RefEnc::Iso2022Jp { state } = self {
            if *state != JpEnc::Ascii {
                *state = JpEnc::Ascii;
                bytes(out, &[0x1B, 0x28, 0x42]);
            }
        }
    }
}

/// NCR text for an unmappable in replacement mode.
pub fn ncr(c: u32) -> Vec<u8> {
    format!("&#{};", c).into_bytes()
}
