//! Reference decoders: the Encoding Standard's decoder algorithms as explicit, hashable
//! state machines (DESIGN.md Appendix A). No code or table is shared with the crate.
//!
//! Positions. `feed(b, after, out)` consumes one byte; `after` is the number of bytes that follow
//! it and are already counted as fed (used by the BOM wrapper when it releases withheld bytes).
//! Tokens carry spans as distances *back* from the end of everything fed so far: an error covers
//! the bytes `[n - start_back, n - end_back)` where n is the number of bytes fed.
use super::data::{data, gb_ranges_cp};
use std::collections::VecDeque;

#[derive(Clone, Copy, PartialEq, Eq, Hash, Debug)]
pub enum RTok {
    Char(u32),
    Err { start_back: u8, end_back: u8 },
}

#[derive(Clone, Copy, PartialEq, Eq, Hash, Debug)]
pub enum JpState {
    Ascii,
    Roman,
    Katakana,
    Lead,
    Trail,
    EscStart,
    Esc,
}

#[derive(Clone, PartialEq, Eq, Hash, Debug)]
pub enum RefDec {
    SingleByte { idx: u8 },
    UserDefined,
    Replacement { done: bool },
    Utf8 { cp: u32, seen: u8, need: u8, lo: u8, hi: u8 },
    Utf16 { be: bool, lead_byte: Option<u8>, surr: Option<u16> },
    Big5 { lead: u8 },
    EucKr { lead: u8 },
    ShiftJis { lead: u8 },
    EucJp { lead: u8, jis0212: bool },
    Gb18030 { first: u8, second: u8, third: u8 },
    Iso2022Jp { state: JpState, out: JpState, lead: u8, flag: bool },
}

struct Cx<'a> {
    q: &'a mut VecDeque<u8>,
    out: &'a mut Vec<RTok>,
    /// bytes after the current one that are already fed (queue + caller's `after`)
    rem: u8,
}

impl<'a> Cx<'a> {
    fn emit(&mut self, c: u32) {
        self.out.push(RTok::Char(c));
    }
    /// `total` = bytes consumed since the last token boundary including the current one;
    /// `back` = the last `back.len()` of them, to be re-processed (prepend to the I/O queue).
    fn error(&mut self, total: u8, back: &[u8]) {
        let k = back.len() as u8;
        debug_assert!(total > k);
        self.out.push(RTok::Err { start_back: self.rem + total, end_back: self.rem + k });
        for &b in back.iter().rev() {
            self.q.push_front(b);
        }
    }
}

impl RefDec {
    pub fn utf8() -> RefDec {
        RefDec::Utf8 { cp: 0, seen: 0, need: 0, lo: 0x80, hi: 0xBF }
    }
    pub fn utf16(be: bool) -> RefDec {
        RefDec::Utf16 { be, lead_byte: None, surr: None }
    }
    pub fn iso2022jp() -> RefDec {
        RefDec::Iso2022Jp { state: JpState::Ascii, out: JpState::Ascii, lead: 0, flag: false }
    }

    /// Number of bytes consumed since the last token boundary (held as partial sequence).
    pub fn pending_len(&self) -> u8 {
        match *self {
            RefDec::SingleByte { .. } | RefDec::UserDefined | RefDec::Replacement { .. } => 0,
            RefDec::Utf8 { seen, need, .. } => {
                if need > 0 {
                    seen + 1
                } else {
                    0
                }
            }
            RefDec::Utf16 { lead_byte, surr, .. } => {
                (if lead_byte.is_some() { 1 } else { 0 }) + (if surr.is_some() { 2 } else { 0 })
            }
            RefDec::Big5 { lead } | RefDec::EucKr { lead } | RefDec::ShiftJis { lead } => (lead != 0) as u8,
            RefDec::EucJp { lead, jis0212 } => (lead != 0) as u8 + jis0212 as u8,
            RefDec::Gb18030 { first, second, third } => (first != 0) as u8 + (second != 0) as u8 + (third != 0) as u8,
            RefDec::Iso2022Jp { state, .. } => match state {
                JpState::Trail | JpState::EscStart => 1,
                JpState::Esc => 2,
                _ => 0,
            },
        }
    }

    /// True when the decoder holds nothing: no partial sequence and (ISO-2022-JP) the initial
    /// ASCII state with the output flag clear.
    pub fn is_initial(&self) -> bool {
        match *self {
            RefDec::Replacement { done } => !done,
            RefDec::Iso2022Jp { state, out, flag, .. } => state == JpState::Ascii && out == JpState::Ascii && !flag,
            _ => self.pending_len() == 0,
        }
    }

    pub fn feed(&mut self, b: u8, after: u8, out: &mut Vec<RTok>) {
        let mut q: VecDeque<u8> = VecDeque::new();
        q.push_back(b);
        while let Some(x) = q.pop_front() {
            let rem = q.len() as u8 + after;
            let mut cx = Cx { q: &mut q, out, rem };
            self.step(Some(x), &mut cx);
        }
    }

    pub fn eof(&mut self, out: &mut Vec<RTok>) {
        let mut q: VecDeque<u8> = VecDeque::new();
        loop {
            {
                let mut cx = Cx { q: &mut q, out, rem: 0 };
                self.step(None, &mut cx);
            }
            if q.is_empty() {
                break;
            }
            while let Some(x) = q.pop_front() {
                let rem = q.len() as u8;
                let mut cx = Cx { q: &mut q, out, rem };
                self.step(Some(x), &mut cx);
            }
        }
    }

    fn step(&mut self, x: Option<u8>, cx: &mut Cx) {
        let d = data();
        match self {
            RefDec::SingleByte { idx } => {
                if let Some(b) = x {
                    if b < 0x80 {
                        cx.emit(b as u32);
                    } else {
                        let c = d.single_byte[*idx as usize].1[(b - 0x80) as usize];
                        if c != 0 {
                            cx.emit(c);
                        } else {
                            cx.error(1, &[]);
                        }
                    }
                }
            }
            RefDec::UserDefined => {
                if let Some(b) = x {
                    if b < 0x80 {
                        cx.emit(b as u32);
                    } else {
                        cx.emit(0xF780 + (b as u32) - 0x80);
                    }
                }
            }
            RefDec::Replacement { done } => {
                if x.is_some() && !*done {
                    *done = true;
                    cx.error(1, &[]);
                }
            }
            RefDec::Utf8 { cp, seen, need, lo, hi } => match x {
                None => {
                    if *need > 0 {
                        let total = *seen + 1;
                        *need = 0;
                        *seen = 0;
                        *cp = 0;
                        *lo = 0x80;
                        *hi = 0xBF;
                        // at EOF the current "byte" does not exist: total counts held bytes only
                        cx.out.push(RTok::Err { start_back: total, end_back: 0 });
                    }
                }
                Some(b) => {
                    if *need == 0 {
                        match b {
                            0x00..=0x7F => cx.emit(b as u32),
                            0xC2..=0xDF => {
                                *need = 1;
                                *cp = (b & 0x1F) as u32;
                            }
                            0xE0..=0xEF => {
                                if b == 0xE0 {
                                    *lo = 0xA0;
                                }
                                if b == 0xED {
                                    *hi = 0x9F;
                                }
                                *need = 2;
                                *cp = (b & 0xF) as u32;
                            }
                            0xF0..=0xF4 => {
                                if b == 0xF0 {
                                    *lo = 0x90;
                                }
                                if b == 0xF4 {
                                    *hi = 0x8F;
                                }
                                *need = 3;
                                *cp = (b & 0x7) as u32;
                            }
                            _ => cx.error(1, &[]),
                        }
                    } else if b < *lo || b > *hi {
                        let total = *seen + 2;
                        *need = 0;
                        *seen = 0;
                        *cp = 0;
                        *lo = 0x80;
                        *hi = 0xBF;
                        cx.error(total, &[b]);
                    } else {
                        *lo = 0x80;
                        *hi = 0xBF;
                        *cp = (*cp << 6) | (b & 0x3F) as u32;
                        *seen += 1;
                        if *seen == *need {
                            let c = *cp;
                            *need = 0;
                            *seen = 0;
                            *cp = 0;
                            cx.emit(c);
                        }
                    }
                }
            },
            RefDec::Utf16 { be, lead_byte, surr } => match x {
                None => {
                    let total = (lead_byte.is_some() as u8) + if surr.is_some() { 2 } else { 0 };
                    if total > 0 {
                        *lead_byte = None;
                        *surr = None;
                        cx.out.push(RTok::Err { start_back: total, end_back: 0 });
                    }
                }
                Some(b) => match *lead_byte {
                    None => *lead_byte = Some(b),
                    Some(lb) => {
                        *lead_byte = None;
                        let u: u16 = if *be { ((lb as u16) << 8) | b as u16 } else { ((b as u16) << 8) | lb as u16 };
                        if let Some(s) = *surr {
                            *surr = None;
                            if (0xDC00..=0xDFFF).contains(&u) {
                                cx.emit(0x10000 + (((s as u32) - 0xD800) << 10) + ((u as u32) - 0xDC00));
                            } else {
                                // lead surrogate is the error; both bytes of this unit are restored
                                cx.error(4, &[lb, b]);
                            }
                        } else if (0xD800..=0xDBFF).contains(&u) {
                            *surr = Some(u);
                        } else if (0xDC00..=0xDFFF).contains(&u) {
                            cx.error(2, &[]);
                        } else {
                            cx.emit(u as u32);
                        }
                    }
                },
            },
            RefDec::Big5 { lead } => match x {
                None => {
                    if *lead != 0 {
                        *lead = 0;
                        cx.out.push(RTok::Err { start_back: 1, end_back: 0 });
                    }
                }
                Some(b) => {
                    if *lead != 0 {
                        let l = *lead as u32;
                        *lead = 0;
                        let off: u32 = if b < 0x7F { 0x40 } else { 0x62 };
                        let mut p: Option<u32> = None;
                        if (0x40..=0x7E).contains(&b) || (0xA1..=0xFE).contains(&b) {
                            p = Some((l - 0x81) * 157 + (b as u32 - off));
                        }
                        match p {
                            Some(1133) => {
                                cx.emit(0xCA);
                                cx.emit(0x304);
                            }
                            Some(1135) => {
                                cx.emit(0xCA);
                                cx.emit(0x30C);
                            }
                            Some(1164) => {
                                cx.emit(0xEA);
                                cx.emit(0x304);
                            }
                            Some(1166) => {
                                cx.emit(0xEA);
                                cx.emit(0x30C);
                            }
                            _ => {
                                let c = p.and_then(|p| d.big5.get(p as usize).copied()).unwrap_or(0);
                                if c != 0 {
                                    cx.emit(c);
                                } else if b < 0x80 {
                                    cx.error(2, &[b]);
                                } else {
                                    cx.error(2, &[]);
                                }
                            }
                        }
                    } else if b < 0x80 {
                        cx.emit(b as u32);
                    } else if (0x81..=0xFE).contains(&b) {
                        *lead = b;
                    } else {
                        cx.error(1, &[]);
                    }
                }
            },
            RefDec::EucKr { lead } => match x {
                None => {
                    if *lead != 0 {
                        *lead = 0;
                        cx.out.push(RTok::Err { start_back: 1, end_back: 0 });
                    }
                }
                Some(b) => {
                    if *lead != 0 {
                        let l = *lead as u32;
                        *lead = 0;
                        let mut c = 0;
                        if (0x41..=0xFE).contains(&b) {
                            let p = (l - 0x81) * 190 + (b as u32 - 0x41);
                            c = d.euc_kr.get(p as usize).copied().unwrap_or(0);
                        }
                        if c != 0 {
                            cx.emit(c);
                        } else if b < 0x80 {
                            cx.error(2, &[b]);
                        } else {
                            cx.error(2, &[]);
                        }
                    } else if b < 0x80 {
                        cx.emit(b as u32);
                    } else if (0x81..=0xFE).contains(&b) {
                        *lead = b;
                    } else {
                        cx.error(1, &[]);
                    }
                }
            },
            RefDec::ShiftJis { lead } => match x {
                None => {
                    if *lead != 0 {
                        *lead = 0;
                        cx.out.push(RTok::Err { start_back: 1, end_back: 0 });
                    }
                }
                Some(b) => {
                    if *lead != 0 {
                        let l = *lead as u32;
                        *lead = 0;
                        let off: u32 = if b < 0x7F { 0x40 } else { 0x41 };
                        let lo: u32 = if l < 0xA0 { 0x81 } else { 0xC1 };
                        let mut c = 0;
                        if (0x40..=0x7E).contains(&b) || (0x80..=0xFC).contains(&b) {
                            let p = (l - lo) * 188 + (b as u32 - off);
                            if (8836..=10715).contains(&p) {
                                c = 0xE000 - 8836 + p;
                            } else {
                                c = d.jis0208.get(p as usize).copied().unwrap_or(0);
                            }
                        }
                        if c != 0 {
                            cx.emit(c);
                        } else if b < 0x80 {
                            cx.error(2, &[b]);
                        } else {
                            cx.error(2, &[]);
                        }
                    } else if b <= 0x80 {
                        cx.emit(b as u32);
                    } else if (0xA1..=0xDF).contains(&b) {
                        cx.emit(0xFF61 - 0xA1 + b as u32);
                    } else if (0x81..=0x9F).contains(&b) || (0xE0..=0xFC).contains(&b) {
                        *lead = b;
                    } else {
                        cx.error(1, &[]);
                    }
                }
            },
            RefDec::EucJp { lead, jis0212 } => match x {
                None => {
                    if *lead != 0 {
                        let total = 1 + *jis0212 as u8;
                        *lead = 0;
                        *jis0212 = false;
                        cx.out.push(RTok::Err { start_back: total, end_back: 0 });
                    }
                }
                Some(b) => {
                    if *lead == 0x8E && (0xA1..=0xDF).contains(&b) {
                        *lead = 0;
                        cx.emit(0xFF61 - 0xA1 + b as u32);
                    } else if *lead == 0x8F && (0xA1..=0xFE).contains(&b) {
                        *jis0212 = true;
                        *lead = b;
                    } else if *lead != 0 {
                        let l = *lead;
                        *lead = 0;
                        let total = 2 + *jis0212 as u8;
                        let mut c = 0;
                        if (0xA1..=0xFE).contains(&l) && (0xA1..=0xFE).contains(&b) {
                            let p = (l as usize - 0xA1) * 94 + (b as usize - 0xA1);
                            c = if *jis0212 { d.jis0212.get(p).copied().unwrap_or(0) } else { d.jis0208.get(p).copied().unwrap_or(0) };
                        }
                        *jis0212 = false;
                        if c != 0 {
                            cx.emit(c);
                        } else if b < 0x80 {
                            cx.error(total, &[b]);
                        } else {
                            cx.error(total, &[]);
                        }
                    } else if b < 0x80 {
                        cx.emit(b as u32);
                    } else if b == 0x8E || b == 0x8F || (0xA1..=0xFE).contains(&b) {
                        *lead = b;
                    } else {
                        cx.error(1, &[]);
                    }
                }
            },
            RefDec::Gb18030 { first, second, third } => match x {
                None => {
                    let total = (*first != 0) as u8 + (*second != 0) as u8 + (*third != 0) as u8;
                    if total > 0 {
                        *first = 0;
                        *second = 0;
                        *third = 0;
                        cx.out.push(RTok::Err { start_back: total, end_back: 0 });
                    }
                }
                Some(b) => {
                    if *third != 0 {
                        if !(0x30..=0x39).contains(&b) {
                            let (s, t) = (*second, *third);
                            *first = 0;
                            *second = 0;
                            *third = 0;
                            cx.error(4, &[s, t, b]);
                        } else {
                            let p = ((*first as u32 - 0x81) * 10 + (*second as u32 - 0x30)) * 1260
                                + (*third as u32 - 0x81) * 10
                                + (b as u32 - 0x30);
                            *first = 0;
                            *second = 0;
                            *third = 0;
                            match gb_ranges_cp(p) {
                                Some(c) => cx.emit(c),
                                None => cx.error(4, &[]),
                            }
                        }
                    } else if *second != 0 {
                        if (0x81..=0xFE).contains(&b) {
                            *third = b;
                        } else {
                            let s = *second;
                            *first = 0;
                            *second = 0;
                            cx.error(3, &[s, b]);
                        }
                    } else if *first != 0 {
                        if (0x30..=0x39).contains(&b) {
                            *second = b;
                        } else {
                            let l = *first as u32;
                            *first = 0;
                            let off: u32 = if b < 0x7F { 0x40 } else { 0x41 };
                            let mut c = 0;
                            if (0x40..=0x7E).contains(&b) || (0x80..=0xFE).contains(&b) {
                                let p = (l - 0x81) * 190 + (b as u32 - off);
                                c = d.gb18030.get(p as usize).copied().unwrap_or(0);
                            }
                            if c != 0 {
                                cx.emit(c);
                            } else if b < 0x80 {
                                cx.error(2, &[b]);
                            } else {
                                cx.error(2, &[]);
                            }
                        }
                    } else if b < 0x80 {
                        cx.emit(b as u32);
                    } else if b == 0x80 {
                        cx.emit(0x20AC);
                    } else if (0x81..=0xFE).contains(&b) {
                        *first = b;
                    } else {
                        cx.error(1, &[]);
                    }
                }
            },
            RefDec::Iso2022Jp { state, out, lead, flag } => {
                use JpState::*;
                match *state {
                    Ascii | Roman | Katakana | Lead => match x {
                        None => {}
                        Some(0x1B) => *state = EscStart,
                        Some(b) => {
                            *flag = false;
                            match *state {
                                Ascii => {
                                    if b < 0x80 && b != 0x0E && b != 0x0F {
                                        cx.emit(b as u32)
                                    } else {
                                        cx.error(1, &[])
                                    }
                                }
                                Roman => {
                                    if b == 0x5C {
                                        cx.emit(0xA5)
                                    } else if b == 0x7E {
                                        cx.emit(0x203E)
                                    } else if b < 0x80 && b != 0x0E && b != 0x0F {
                                        cx.emit(b as u32)
                                    } else {
                                        cx.error(1, &[])
                                    }
                                }
                                Katakana => {
                                    if (0x21..=0x5F).contains(&b) {
                                        cx.emit(0xFF61 - 0x21 + b as u32)
                                    } else {
                                        cx.error(1, &[])
                                    }
                                }
                                Lead => {
                                    if (0x21..=0x7E).contains(&b) {
                                        *lead = b;
                                        *state = Trail;
                                    } else {
                                        cx.error(1, &[])
                                    }
                                }
                                _ => unreachable!(),
                            }
                        }
                    },
                    Trail => match x {
                        None => {
                            *state = Lead;
                            *lead = 0;
                            cx.out.push(RTok::Err { start_back: 1, end_back: 0 });
                        }
                        Some(0x1B) => {
                            // the lead byte is the error; ESC starts an escape sequence
                            *state = EscStart;
                            *lead = 0;
                            cx.out.push(RTok::Err { start_back: cx.rem + 2, end_back: cx.rem + 1 });
                        }
                        Some(b) => {
                            *state = Lead;
                            let l = *lead;
                            *lead = 0;
                            let mut c = 0;
                            if (0x21..=0x7E).contains(&b) {
                                let p = (l as usize - 0x21) * 94 + (b as usize - 0x21);
                                c = d.jis0208.get(p).copied().unwrap_or(0);
                            }
                            if c != 0 {
                                cx.emit(c);
                            } else {
                                cx.error(2, &[]);
                            }
                        }
                    },
                    EscStart => match x {
                        Some(b) if b == 0x24 || b == 0x28 => {
                            *lead = b;
                            *state = Esc;
                        }
                        Some(b) => {
                            *flag = false;
                            *state = *out;
                            cx.error(2, &[b]);
                        }
                        None => {
                            *flag = false;
                            *state = *out;
                            cx.out.push(RTok::Err { start_back: 1, end_back: 0 });
                        }
                    },
                    Esc => {
                        let l = *lead;
                        *lead = 0;
                        let ns = match (l, x) {
                            (0x28, Some(0x42)) => Some(Ascii),
                            (0x28, Some(0x4A)) => Some(Roman),
                            (0x28, Some(0x49)) => Some(Katakana),
                            (0x24, Some(0x40)) | (0x24, Some(0x42)) => Some(Lead),
                            _ => None,
                        };
                        match (ns, x) {
                            (Some(s), _) => {
                                *state = s;
                                *out = s;
                                let f = *flag;
                                *flag = true;
                                if f {
                                    // the previous (useless) escape sequence is the malformed one
                                    cx.out.push(RTok::Err { start_back: cx.rem + 6, end_back: cx.rem + 3 });
                                }
                            }
                            (None, Some(b)) => {
                                *flag = false;
                                *state = *out;
                                cx.error(3, &[l, b]);
                            }
                            (None, None) => {
                                *flag = false;
                                *state = *out;
                                // ESC alone is the error; the lead is re-processed
                                cx.out.push(RTok::Err { start_back: 2, end_back: 1 });
                                cx.q.push_front(l);
                            }
                        }
                    }
                }
            }
        }
    }
}

// ---------------------------------------------------------------------------------------------
// BOM wrapper (the Standard's decode / UTF-8 decode / without BOM hooks), incremental.

#[derive(Clone, Copy, PartialEq, Eq, Hash, Debug)]
pub enum BomMode {
    Off,
    Sniff,
    Remove,
}

#[derive(Clone, Copy, PartialEq, Eq, Hash, Debug)]
pub enum Used {
    Nominal,
    Utf8,
    Utf16Be,
    Utf16Le,
}

#[derive(Clone, PartialEq, Eq, Hash, Debug)]
pub struct RefStream {
    pub dec: RefDec,
    /// number of withheld potential-BOM bytes (0..=2), only while undecided
    pub withheld: u8,
    pub held: [u8; 2],
    pub decided: bool,
    pub used: Used,
    /// which BOMs are candidates: bit0 UTF-8, bit1 UTF-16BE, bit2 UTF-16LE
    pub cand: u8,
}

const BOMS: [(&[u8], Used, u8); 3] =
    [(&[0xEF, 0xBB, 0xBF], Used::Utf8, 1), (&[0xFE, 0xFF], Used::Utf16Be, 2), (&[0xFF, 0xFE], Used::Utf16Le, 4)];

impl RefStream {
    /// `own`: which BOM is the nominal encoding's own (for Remove mode).
    pub fn new(dec: RefDec, mode: BomMode, own: Option<Used>) -> RefStream {
        let cand = match mode {
            BomMode::Off => 0,
            BomMode::Sniff => 7,
            BomMode::Remove => match own {
                Some(Used::Utf8) => 1,
                Some(Used::Utf16Be) => 2,
                Some(Used::Utf16Le) => 4,
                _ => 0,
            },
        };
        RefStream { dec, withheld: 0, held: [0; 2], decided: cand == 0, used: Used::Nominal, cand }
    }

    pub fn feed(&mut self, b: u8, out: &mut Vec<RTok>) {
        if self.decided {
            self.dec.feed(b, 0, out);
            return;
        }
        let mut seen: Vec<u8> = self.held[..self.withheld as usize].to_vec();
        seen.push(b);
        let mut prefix = false;
        for (bom, used, bit) in BOMS.iter() {
            if self.cand & bit == 0 {
                continue;
            }
            if seen.as_slice() == *bom {
                self.decided = true;
                self.withheld = 0;
                self.held = [0; 2];
                // switch decoder unless it already is the nominal one (same algorithm either way)
                self.dec = match used {
                    Used::Utf8 => RefDec::utf8(),
                    Used::Utf16Be => RefDec::utf16(true),
                    Used::Utf16Le => RefDec::utf16(false),
                    Used::Nominal => unreachable!(),
                };
                self.used = *used;
                return;
            }
            if bom.len() > seen.len() && bom[..seen.len()] == seen[..] {
                prefix = true;
            }
        }
        if prefix {
            self.held[self.withheld as usize] = b;
            self.withheld += 1;
            return;
        }
        // mismatch: release everything to the nominal decoder
        self.decided = true;
        self.withheld = 0;
        self.held = [0; 2];
        let n = seen.len();
        for (i, &x) in seen.iter().enumerate() {
            self.dec.feed(x, (n - 1 - i) as u8, out);
        }
    }

    pub fn eof(&mut self, out: &mut Vec<RTok>) {
        if !self.decided {
            let seen: Vec<u8> = self.held[..self.withheld as usize].to_vec();
            self.decided = true;
            self.withheld = 0;
            self.held = [0; 2];
            let n = seen.len();
            for (i, &x) in seen.iter().enumerate() {
                self.dec.feed(x, (n - 1 - i) as u8, out);
            }
        }
        self.dec.eof(out);
    }
}
