//! Frozen oracle data (see /verif/spec and DESIGN.md section 4). Shares nothing with the crate.
use std::collections::HashMap;
use std::sync::OnceLock;

fn parse_index(text: &str, expect: usize) -> Vec<u32> {
    let v: Vec<u32> = text
        .lines()
        .filter(|l| !l.starts_with('#') && !l.is_empty())
        .map(|l| u32::from_str_radix(l.trim(), 16).expect("hex"))
        .collect();
    assert_eq!(v.len(), expect);
    v
}

pub struct Data {
    pub big5: Vec<u32>,
    pub euc_kr: Vec<u32>,
    pub gb18030: Vec<u32>,
    pub jis0208: Vec<u32>,
    pub jis0212: Vec<u32>,
    pub katakana: Vec<u32>,
    /// (pointer, code point) starts of linear runs below pointer 39420
    pub gb_ranges: Vec<(u32, u32)>,
    /// name -> 128 entries
    pub single_byte: Vec<(String, Vec<u32>)>,
    pub labels: Vec<(String, String)>,
    // reverse maps for the encoders (pointer selection per the Standard)
    pub big5_rev: HashMap<u32, u32>,
    pub euc_kr_rev: HashMap<u32, u32>,
    pub gb18030_rev: HashMap<u32, u32>,
    pub jis0208_rev: HashMap<u32, u32>,
    pub sjis_rev: HashMap<u32, u32>,
    pub single_byte_rev: Vec<HashMap<u32, u8>>,
}

fn first_pointer_map(idx: &[u32], keep: impl Fn(usize) -> bool) -> HashMap<u32, u32> {
    let mut m = HashMap::new();
    for (p, &c) in idx.iter().enumerate() {
        if c != 0 && keep(p) {
            m.entry(c).or_insert(p as u32);
        }
    }
    m
}

pub fn data() -> &'static Data {
    static D: OnceLock<Data> = OnceLock::new();
    D.get_or_init(|| {
        let big5 = parse_index(include_str!("../../../spec/big5.txt"), 19782);
        let euc_kr = parse_index(include_str!("../../../spec/euc-kr.txt"), 23940);
        let gb18030 = parse_index(include_str!("../../../spec/gb18030.txt"), 23940);
        let jis0208 = parse_index(include_str!("../../../spec/jis0208.txt"), 11280);
        let jis0212 = parse_index(include_str!("../../../spec/jis0212.txt"), 8836);
        let katakana = parse_index(include_str!("../../../spec/iso-2022-jp-katakana.txt"), 63);
        let gb_ranges: Vec<(u32, u32)> = include_str!("../../../spec/gb18030-ranges.txt")
            .lines()
            .filter(|l| !l.starts_with('#') && !l.is_empty())
            .map(|l| {
                let mut it = l.split_whitespace();
                let p: u32 = it.next().unwrap().parse().unwrap();
                let c = u32::from_str_radix(it.next().unwrap(), 16).unwrap();
                (p, c)
            })
            .collect();
        let mut single_byte = Vec::new();
        {
            let lines: Vec<&str> = include_str!("../../../spec/single-byte.txt")
                .lines()
                .filter(|l| !l.starts_with('#') && !l.is_empty())
                .collect();
            for pair in lines.chunks(2) {
                let v: Vec<u32> = pair[1]
                    .split_whitespace()
                    .map(|x| u32::from_str_radix(x, 16).unwrap())
                    .collect();
                assert_eq!(v.len(), 128);
                single_byte.push((pair[0].to_string(), v));
            }
            assert_eq!(single_byte.len(), 28);
        }
        let labels: Vec<(String, String)> = include_str!("../../../spec/labels.txt")
            .lines()
            .filter(|l| !l.starts_with('#') && !l.is_empty())
            .map(|l| {
                let mut it = l.split('\t');
                (it.next().unwrap().to_string(), it.next().unwrap().to_string())
            })
            .collect();
        assert_eq!(labels.len(), 228);

        // Big5: exclude pointers below (0xA1-0x81)*157; last pointer for six code points.
        let lo = (0xA1 - 0x81) * 157;
        let mut big5_rev = first_pointer_map(&big5, |p| p >= lo);
        for &c in &[0x2550u32, 0x255E, 0x2561, 0x256A, 0x5341, 0x5345] {
            let last = big5
                .iter()
                .enumerate()
                .filter(|(p, &x)| x == c && *p >= lo)
                .map(|(p, _)| p as u32)
                .last()
                .expect("prefer-last code point present");
            big5_rev.insert(c, last);
        }
        let euc_kr_rev = first_pointer_map(&euc_kr, |_| true);
        let gb18030_rev = first_pointer_map(&gb18030, |_| true);
        let jis0208_rev = first_pointer_map(&jis0208, |_| true);
        let sjis_rev = first_pointer_map(&jis0208, |p| !(8272..=8835).contains(&p));
        let single_byte_rev = single_byte
            .iter()
            .map(|(_, idx)| {
                let mut m = HashMap::new();
                for (p, &c) in idx.iter().enumerate() {
                    if c != 0 {
                        m.entry(c).or_insert(p as u8);
                    }
                }
                m
            })
            .collect();
        Data {
            big5,
            euc_kr,
            gb18030,
            jis0208,
            jis0212,
            katakana,
            gb_ranges,
            single_byte,
            labels,
            big5_rev,
            euc_kr_rev,
            gb18030_rev,
            jis0208_rev,
            sjis_rev,
            single_byte_rev,
        }
    })
}

/// index gb18030 ranges code point for pointer (the Standard's rule).
pub fn gb_ranges_cp(p: u32) -> Option<u32> {
    if (p > 39419 && p < 189000) || p > 1237575 {
        return None;
    }
    if p == 7457 {
        return Some(0xE7C7);
    }
    if p >= 189000 {
        return Some(0x10000 + p - 189000);
    }
    let r = &data().gb_ranges;
    let i = match r.binary_search_by(|e| e.0.cmp(&p)) {
        Ok(i) => i,
        Err(i) => i - 1,
    };
    let (p0, c0) = r[i];
    if c0 == 0 {
        None
    } else {
        Some(c0 + (p - p0))
    }
}

/// index gb18030 ranges pointer for code point (the Standard's rule).
pub fn gb_ranges_pointer(c: u32) -> u32 {
    if c == 0xE7C7 {
        return 7457;
    }
    if c >= 0x10000 {
        return 189000 + c - 0x10000;
    }
    let r = &data().gb_ranges;
    // last run whose code point is <= c
    let mut best = r[0];
    for &(p0, c0) in r.iter() {
        if c0 != 0 && c0 <= c {
            best = (p0, c0);
        }
    }
    best.0 + (c - best.1)
}

pub fn single_byte_index(name: &str) -> Option<usize> {
    data().single_byte.iter().position(|(n, _)| n == name)
}
