pub mod data;
pub mod dec;
pub mod enc;

use dec::{BomMode, RefDec, RefStream, Used};
use enc::RefEnc;
use encoding_rs::Encoding;

/// The 40 encoding names of the Standard (independent list; the crate is looked up by label).
pub const NAMES: [&str; 40] = [
    "UTF-8",
    "IBM866",
    "ISO-8859-2",
    "ISO-8859-3",
    "ISO-8859-4",
    "ISO-8859-5",
    "ISO-8859-6",
    "ISO-8859-7",
    "ISO-8859-8",
    "ISO-8859-8-I",
    "ISO-8859-10",
    "ISO-8859-13",
    "ISO-8859-14",
    "ISO-8859-15",
    "ISO-8859-16",
    "KOI8-R",
    "KOI8-U",
    "macintosh",
    "windows-874",
    "windows-1250",
    "windows-1251",
    "windows-1252",
    "windows-1253",
    "windows-1254",
    "windows-1255",
    "windows-1256",
    "windows-1257",
    "windows-1258",
    "x-mac-cyrillic",
    "GBK",
    "gb18030",
    "Big5",
    "EUC-JP",
    "ISO-2022-JP",
    "Shift_JIS",
    "EUC-KR",
    "replacement",
    "UTF-16BE",
    "UTF-16LE",
    "x-user-defined",
];

#[derive(Clone, Copy, PartialEq, Eq, Hash, Debug)]
pub enum Kind {
    Utf8,
    SingleByte(u8),
    Gbk,
    Gb18030,
    Big5,
    EucJp,
    Iso2022Jp,
    ShiftJis,
    EucKr,
    Replacement,
    Utf16Be,
    Utf16Le,
    UserDefined,
}

#[derive(Clone, Copy)]
pub struct Enc {
    pub name: &'static str,
    pub kind: Kind,
    pub imp: &'static Encoding,
}

pub fn kind_of(name: &str) -> Kind {
    match name {
        "UTF-8" => Kind::Utf8,
        "GBK" => Kind::Gbk,
        "gb18030" => Kind::Gb18030,
        "Big5" => Kind::Big5,
        "EUC-JP" => Kind::EucJp,
        "ISO-2022-JP" => Kind::Iso2022Jp,
        "Shift_JIS" => Kind::ShiftJis,
        "EUC-KR" => Kind::EucKr,
        "replacement" => Kind::Replacement,
        "UTF-16BE" => Kind::Utf16Be,
        "UTF-16LE" => Kind::Utf16Le,
        "x-user-defined" => Kind::UserDefined,
        n => Kind::SingleByte(data::single_byte_index(n).unwrap_or_else(|| panic!("unknown encoding {}", n)) as u8),
    }
}

pub fn enc(name: &str) -> Enc {
    let name: &'static str = NAMES.iter().find(|n| **n == name).unwrap_or_else(|| panic!("unknown encoding {}", name));
    let imp = crate::imp::imp_static(name);
    Enc { name, kind: kind_of(name), imp }
}

pub fn all() -> Vec<Enc> {
    NAMES.iter().map(|n| enc(n)).collect()
}

impl Enc {
    pub fn ref_decoder(&self) -> RefDec {
        match self.kind {
            Kind::Utf8 => RefDec::utf8(),
            Kind::SingleByte(i) => RefDec::SingleByte { idx: i },
            Kind::Gbk | Kind::Gb18030 => RefDec::Gb18030 { first: 0, second: 0, third: 0 },
            Kind::Big5 => RefDec::Big5 { lead: 0 },
            Kind::EucJp => RefDec::EucJp { lead: 0, jis0212: false },
            Kind::Iso2022Jp => RefDec::iso2022jp(),
            Kind::ShiftJis => RefDec::ShiftJis { lead: 0 },
            Kind::EucKr => RefDec::EucKr { lead: 0 },
            Kind::Replacement => RefDec::Replacement { done: false },
            Kind::Utf16Be => RefDec::utf16(true),
            Kind::Utf16Le => RefDec::utf16(false),
            Kind::UserDefined => RefDec::UserDefined,
        }
    }
    pub fn own_bom(&self) -> Option<Used> {
        match self.kind {
            Kind::Utf8 => Some(Used::Utf8),
            Kind::Utf16Be => Some(Used::Utf16Be),
            Kind::Utf16Le => Some(Used::Utf16Le),
            _ => None,
        }
    }
    pub fn ref_stream(&self, mode: BomMode) -> RefStream {
        RefStream::new(self.ref_decoder(), mode, self.own_bom())
    }
    /// The Standard's "get an output encoding" followed by the encoder of that encoding.
    pub fn ref_encoder(&self) -> RefEnc {
        match self.kind {
            Kind::Utf8 | Kind::Replacement | Kind::Utf16Be | Kind::Utf16Le => RefEnc::Utf8,
            Kind::SingleByte(i) => RefEnc::SingleByte { idx: i },
            Kind::Gbk => RefEnc::Gb18030 { gbk: true },
            Kind::Gb18030 => RefEnc::Gb18030 { gbk: false },
            Kind::Big5 => RefEnc::Big5,
            Kind::EucJp => RefEnc::EucJp,
            Kind::Iso2022Jp => RefEnc::Iso2022Jp { state: enc::JpEnc::Ascii },
            Kind::ShiftJis => RefEnc::ShiftJis,
            Kind::EucKr => RefEnc::EucKr,
            Kind::UserDefined => RefEnc::UserDefined,
        }
    }
    pub fn output_name(&self) -> &'static str {
        match self.kind {
            Kind::Replacement | Kind::Utf16Be | Kind::Utf16Le => "UTF-8",
            _ => self.name,
        }
    }
}

pub fn used_name(nominal: &'static str, u: Used) -> &'static str {
    match u {
        Used::Nominal => nominal,
        Used::Utf8 => "UTF-8",
        Used::Utf16Be => "UTF-16BE",
        Used::Utf16Le => "UTF-16LE",
    }
}

/// Whole-stream reference decode: tokens with absolute spans.
#[derive(Clone, Copy, PartialEq, Eq, Hash, Debug)]
pub enum Tok {
    Char(u32),
    Err { start: i64, end: i64 },
}

pub fn ref_decode_all(e: &Enc, mode: BomMode, bytes: &[u8]) -> (Vec<Tok>, Used) {
    let mut rs = e.ref_stream(mode);
    let mut out = Vec::new();
    let mut tmp = Vec::new();
    for (i, &b) in bytes.iter().enumerate() {
        tmp.clear();
        rs.feed(b, &mut tmp);
        let n = (i + 1) as i64;
        for t in &tmp {
            out.push(abs(*t, n));
        }
    }
    tmp.clear();
    rs.eof(&mut tmp);
    let n = bytes.len() as i64;
    for t in &tmp {
        out.push(abs(*t, n));
    }
    (out, rs.used)
}

pub fn abs(t: dec::RTok, n: i64) -> Tok {
    match t {
        dec::RTok::Char(c) => Tok::Char(c),
        dec::RTok::Err { start_back, end_back } => Tok::Err { start: n - start_back as i64, end: n - end_back as i64 },
    }
}
