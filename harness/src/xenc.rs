//! Engine X for encoders (DESIGN.md sections 3 and 6: C03 C04 C06 C07 C08 C09 C12 C18).
use crate::drive::*;
use crate::imp::*;
use crate::json::J;
use crate::spec::enc::{ncr, ETok, RefEnc};
use crate::spec::{Enc, Kind};
use crate::x::*;
use encoding_rs::{Decoder, Encoder};
use std::collections::HashMap;
use std::sync::Arc;

#[derive(Clone, Debug, Default)]
pub struct EOracles {
    pub conform: bool,
    pub contract: bool,
    pub query: bool,
    pub progress: bool,
    pub graph: bool,
    pub prefill3: bool,
    pub flags: bool,
    pub flags_prop: &'static str,
    pub twin: bool,
    pub decode_back: bool,
    pub submin: bool,
    pub aligns: bool,
    pub ladder: bool,
}

#[derive(Clone)]
pub struct ECfg {
    pub enc: Enc,
    pub source: Source,
    pub sink: ESink,
    pub repl: bool,
    /// symbols: sequences of units (scalar values; for UTF-16 sources also lone surrogates)
    pub syms: Vec<Vec<u32>>,
    pub k: usize,
    pub or: EOracles,
    pub threads: usize,
    pub max_states: usize,
    pub tag_chunk: &'static str,
    pub tag_single: &'static str,
    /// mixed-method run: every call may use the with- or the without-replacement method
    pub mixed: bool,
}

impl ECfg {
    pub fn label(&self) -> String {
        format!("{}/{:?}/{:?}/{}", self.enc.name, self.source, self.sink, if self.mixed { "mixed" } else if self.repl { "repl" } else { "norepl" })
    }
    pub fn to_json(&self) -> J {
        J::obj()
            .set("engine", J::s("xenc"))
            .set("encoding", J::s(self.enc.name))
            .set("source", J::s(if self.source == Source::Utf8 { "utf8" } else { "utf16" }))
            .set("sink", J::s(if self.sink == ESink::Slice { "slice" } else { "vec" }))
            .set("repl", J::Bool(self.repl))
    }
    pub fn min_cap(&self) -> usize {
        Self::min_cap_of(self.repl)
    }
    pub fn min_cap_of(repl: bool) -> usize {
        if repl {
            14
        } else {
            4
        }
    }
}

#[derive(Clone, Copy, PartialEq, Eq, Hash, Debug)]
pub enum EDTok {
    Byte(u8),
    Unmappable(u32),
}

#[derive(Clone, PartialEq, Eq, Hash)]
pub struct EKey {
    pub enc: Encoder,
    pub rf: RefEnc,
    pub di: Vec<EDTok>,
    /// reference tokens not yet produced by the implementation; bool = byte belongs to an NCR
    pub ds: Vec<(EDTok, bool)>,
    pub rem: Vec<u32>,
    pub last: bool,
    pub fin: bool,
    /// C12: real decoder of the same encoding fed with all output so far, and the difference
    /// between what it has decoded and what the consumed input should decode back to
    pub back: Option<Decoder>,
    pub back_got: Vec<u32>,
    pub back_want: Vec<u32>,
    pub tainted: bool,
}

impl EKey {
    fn in_chunk(&self) -> bool {
        !self.rem.is_empty() || self.last
    }
}

#[derive(Clone, Debug, PartialEq, Eq)]
pub struct ECallRec {
    pub units: Vec<u32>,
    pub cap: usize,
    pub last: bool,
    pub fill: u8,
    pub dalign: u8,
    /// true: a new chunk from the caller; false: the re-pushed remainder of the previous call
    pub fresh: bool,
    /// 0 = without replacement, 1 = with replacement, 2 = the run's own mode
    pub method: u8,
}

impl ECallRec {
    pub fn repl(&self, default: bool) -> bool {
        match self.method {
            0 => false,
            1 => true,
            _ => default,
        }
    }
    pub fn to_json(&self) -> J {
        J::obj()
            .set("units", J::s(&self.units.iter().map(|u| format!("{:X}", u)).collect::<Vec<_>>().join(" ")))
            .set("cap", J::i(self.cap))
            .set("last", J::Bool(self.last))
            .set("fill", J::i(self.fill as usize))
            .set("dalign", J::i(self.dalign as usize))
            .set("fresh", J::Bool(self.fresh))
            .set("method", J::i(self.method as usize))
    }
    pub fn from_json(j: &J) -> ECallRec {
        ECallRec {
            units: j.get("units").unwrap().as_str().unwrap().split_whitespace().map(|x| u32::from_str_radix(x, 16).unwrap()).collect(),
            cap: j.get("cap").unwrap().as_i64().unwrap() as usize,
            last: j.get("last").unwrap().as_bool().unwrap(),
            fill: j.get("fill").unwrap().as_i64().unwrap() as u8,
            dalign: j.get("dalign").unwrap().as_i64().unwrap() as u8,
            fresh: j.get("fresh").and_then(|x| x.as_bool()).unwrap_or(true),
            method: j.get("method").and_then(|x| x.as_i64()).unwrap_or(2) as u8,
        }
    }
}

struct NodeMeta {
    parent: u32,
    call: ECallRec,
    fresh: bool,
}

#[derive(Default)]
struct Local {
    stats: Stats,
    vios: VioSet,
    succs: Vec<Succ>,
    edges: Vec<(u32, u32, i32)>,
    cur_obs: Option<String>,
    class_counts: Vec<(u16, u64)>,
}

fn class_name(idx: usize) -> String {
    let w = idx % 10;
    let r = (idx / 10) % 10;
    let res = ["InputEmpty", "OutputFull", "Unmappable"][idx / 100];
    format!("{} read{} written{}", res, r, w)
}

struct Succ {
    parent: u32,
    call: ECallRec,
    fresh: bool,
    to: Result<u32, Arc<EKey>>,
    hash: u64,
    weight: Option<i32>,
}

pub struct XOut {
    pub stats: Stats,
    pub vios: VioSet,
}

pub fn eobs_canon(o: &EncObs) -> String {
    format!("{}|{}|{}|{}|{:?}", o.res.short(), o.read, o.written, hex(&o.out), o.had_unmappables)
}

/// Units -> (utf8 string if possible, utf16 units)
pub fn units16(units: &[u32]) -> Vec<u16> {
    let mut v = vec![];
    for &c in units {
        if c >= 0x10000 {
            let c = c - 0x10000;
            v.push(0xD800 + (c >> 10) as u16);
            v.push(0xDC00 + (c & 0x3FF) as u16);
        } else {
            v.push(c as u16);
        }
    }
    v
}

/// Number of source units (bytes of UTF-8 / units of UTF-16) of each element of `units`.
fn unit_len(c: u32, source: Source) -> usize {
    match source {
        Source::Utf8 => {
            if c < 0x80 {
                1
            } else if c < 0x800 {
                2
            } else if c < 0x10000 {
                3
            } else {
                4
            }
        }
        Source::Utf16 => {
            if c >= 0x10000 {
                2
            } else {
                1
            }
        }
    }
}

/// Scalars the encoder must see for a chunk given as units: lone surrogates become U+FFFD,
/// a lone high directly followed by a lone low (as separate units) forms a pair.
/// Returns (scalar, number of units of `units` it covers).
fn scalars_of_units(units: &[u32]) -> Vec<(u32, usize)> {
    let mut v = vec![];
    let mut i = 0;
    while i < units.len() {
        let u = units[i];
        if (0xD800..0xDC00).contains(&u) && i + 1 < units.len() && (0xDC00..0xE000).contains(&units[i + 1]) {
            v.push((0x10000 + ((u - 0xD800) << 10) + (units[i + 1] - 0xDC00), 2));
            i += 2;
        } else if (0xD800..0xE000).contains(&u) {
            v.push((0xFFFD, 1));
            i += 1;
        } else {
            v.push((u, 1));
            i += 1;
        }
    }
    v
}

/// The fixed fold set of property C12.
pub fn c12_fold(e: &Enc, c: u32) -> u32 {
    let d = crate::spec::data::data();
    match e.kind {
        Kind::EucJp | Kind::ShiftJis => match c {
            0xA5 => 0x5C,
            0x203E => 0x7E,
            0x2212 => 0xFF0D,
            _ => c,
        },
        Kind::Iso2022Jp => match c {
            0x2212 => 0xFF0D,
            0xFF61..=0xFF9F => d.katakana[(c - 0xFF61) as usize],
            _ => c,
        },
        Kind::Gbk | Kind::Gb18030 => {
            const PUA: [(u32, [u8; 2]); 18] = [
                (0xE78D, [0xA6, 0xD9]),
                (0xE78E, [0xA6, 0xDA]),
                (0xE78F, [0xA6, 0xDB]),
                (0xE790, [0xA6, 0xDC]),
                (0xE791, [0xA6, 0xDD]),
                (0xE792, [0xA6, 0xDE]),
                (0xE793, [0xA6, 0xDF]),
                (0xE794, [0xA6, 0xEC]),
                (0xE795, [0xA6, 0xED]),
                (0xE796, [0xA6, 0xF3]),
                (0xE81E, [0xFE, 0x59]),
                (0xE826, [0xFE, 0x61]),
                (0xE82B, [0xFE, 0x66]),
                (0xE82C, [0xFE, 0x67]),
                (0xE832, [0xFE, 0x6D]),
                (0xE843, [0xFE, 0x7E]),
                (0xE854, [0xFE, 0x90]),
                (0xE864, [0xFE, 0xA0]),
            ];
            if let Some(r) = PUA.iter().find(|r| r.0 == c) {
                let (l, t) = (r.1[0] as usize, r.1[1] as usize);
                let p = (l - 0x81) * 190 + (t - if t < 0x7F { 0x40 } else { 0x41 });
                d.gb18030[p]
            } else {
                c
            }
        }
        _ => c,
    }
}

pub struct Explorer<'a> {
    cfg: &'a ECfg,
    chunks: Vec<Vec<u32>>,
    nodes: Vec<NodeMeta>,
    keys: Vec<Arc<EKey>>,
    index: HashIndex,
    edges: Vec<(u32, u32, i32)>,
    classified: std::sync::atomic::AtomicUsize,
    shard: String,
}

fn build_chunks(syms: &[Vec<u32>], k: usize) -> Vec<Vec<u32>> {
    let mut out: Vec<Vec<u32>> = vec![vec![]];
    let mut level: Vec<Vec<u32>> = vec![vec![]];
    for _ in 0..k {
        let mut next = vec![];
        for p in &level {
            for s in syms {
                let mut c = p.clone();
                c.extend_from_slice(s);
                next.push(c);
            }
        }
        out.extend(next.iter().cloned());
        level = next;
    }
    let mut seen = std::collections::HashSet::new();
    out.retain(|c| seen.insert(c.clone()));
    out
}

impl<'a> Explorer<'a> {
    pub fn new(cfg: &'a ECfg) -> Explorer<'a> {
        Explorer { cfg, chunks: build_chunks(&cfg.syms, cfg.k), nodes: vec![], keys: vec![], index: HashIndex::new(), edges: vec![], classified: std::sync::atomic::AtomicUsize::new(0), shard: format!("xenc/{}", cfg.label()) }
    }

    fn src_len(&self, units: &[u32]) -> usize {
        units.iter().map(|&c| unit_len(c, self.cfg.source)).sum()
    }

    fn query(&self, enc: &Encoder, n: usize, repl: bool) -> Option<usize> {
        match (self.cfg.source, repl) {
            (Source::Utf8, false) => enc.max_buffer_length_from_utf8_without_replacement(n),
            (Source::Utf8, true) => enc.max_buffer_length_from_utf8_if_no_unmappables(n),
            (Source::Utf16, false) => enc.max_buffer_length_from_utf16_without_replacement(n),
            (Source::Utf16, true) => enc.max_buffer_length_from_utf16_if_no_unmappables(n),
        }
    }

    /// reference output for `units` from this node: (bytes incl. owed ones, has unmappable)
    fn ref_units(&self, key: &EKey, units: &[u32], last: bool, repl: bool) -> (usize, bool) {
        let mut rf = key.rf.clone();
        let mut out = vec![];
        for (c, _) in scalars_of_units(units) {
            rf.push(c, &mut out);
        }
        if last {
            rf.finish(&mut out);
        }
        let mut w = key.ds.iter().filter(|t| matches!(t.0, EDTok::Byte(_))).count();
        let mut unm = false;
        for t in &out {
            match t {
                ETok::Byte(_) => w += 1,
                ETok::Unmappable(c) => {
                    unm = true;
                    if repl {
                        w += ncr(*c).len();
                    }
                }
            }
        }
        (w, unm)
    }

    fn caps(&self, key: &EKey, units: &[u32], last: bool, repl: bool) -> Vec<usize> {
        let min = ECfg::min_cap_of(repl);
        let (w, _) = self.ref_units(key, units, last, repl);
        let mut v: Vec<usize> = vec![];
        for c in min..min + 4 {
            v.push(c);
        }
        for c in w.saturating_sub(2)..=w + 4 {
            v.push(c);
        }
        if repl {
            // around the NCR_EXTRA reservation
            for c in (w + 8)..=(w + 12) {
                v.push(c);
            }
        }
        if w > 18 {
            v.extend_from_slice(&[15, 16, 17, 18]);
        }
        if w > 34 {
            v.extend_from_slice(&[31, 32, 33]);
        }
        v.push(w + 64);
        if let Some(q) = self.query(&key.enc, self.src_len(units), repl) {
            if q < 1 << 20 {
                v.push(q);
            }
        }
        v.retain(|c| *c >= min);
        if self.cfg.or.submin {
            for c in 0..min {
                v.push(c);
            }
        }
        v.sort();
        v.dedup();
        v
    }

    fn path(&self, mut id: u32) -> Vec<(ECallRec, bool)> {
        let mut v = vec![];
        while id > 1 {
            let n = &self.nodes[id as usize];
            v.push((n.call.clone(), n.fresh));
            id = n.parent;
        }
        v.reverse();
        v
    }

    fn replay_json(&self, l: &Local, parent: u32, call: &ECallRec, msg: &str) -> J {
        let mut calls: Vec<J> = self.path(parent).iter().map(|(c, _)| c.to_json()).collect();
        calls.push(call.to_json());
        let mut j = self.cfg.to_json();
        j.put("calls", J::Arr(calls));
        j.put("detail", J::obj().set("message", J::s(msg)));
        match &l.cur_obs {
            Some(o) => j.put("expect_last", J::s(o)),
            None => j.put("expect_last", J::Null),
        }
        j
    }

    fn vio(&self, l: &mut Local, prop: &str, kind: &str, msg: String, parent: u32, call: &ECallRec) {
        if l.vios.wants(prop, kind) {
            let rj = self.replay_json(l, parent, call, &msg);
            l.vios.add(Violation { prop: prop.to_string(), kind: kind.to_string(), msg, replay: rj });
        } else {
            l.vios.count_only(prop, kind);
        }
    }

    fn do_call(&self, enc: &mut Encoder, units: &[u32], last: bool, cap: usize, fill: u8, dalign: u8, repl: bool) -> Result<EncObs, String> {
        let d = Dst { cap, fill, align: dalign as usize, prior: None };
        call_units(enc, self.cfg.source, self.cfg.sink, repl, units, last, &d)
    }

    fn classify(&self, l: &mut Local, what: &str, parent: u32, call: &ECallRec) {
        let cfg = self.cfg;
        // classification replays whole histories: do it for the first few divergences only
        if self.classified.fetch_add(1, std::sync::atomic::Ordering::Relaxed) >= 24 {
            l.vios.count_only(cfg.tag_chunk, "divergence-not-classified-after-the-first-24");
            return;
        }
        let mut calls: Vec<ECallRec> = self.path(parent).into_iter().map(|(c, _)| c).collect();
        calls.push(call.clone());
        let closed = close_history(cfg, &calls);
        let (chunked, text_units) = match closed {
            Ok(x) => x,
            Err(m) => {
                self.vio(l, cfg.tag_chunk, &format!("{}:cannot-complete", what), format!("history cannot be completed: {}", m), parent, call);
                return;
            }
        };
        // the whole text in one call; pairing is decided per original chunk, so the single
        // call sees the chunks' scalar sequences
        let scalars: Vec<u32> = text_units.clone();
        let single = encode_single(cfg, &scalars);
        let reft = ref_encode_all(&cfg.enc, &scalars, true);
        let reft = if cfg.repl || cfg.mixed { fold_ncr(&reft) } else { reft };
        let chunked = if cfg.mixed { fold_ncr(&chunked) } else { chunked };
        let single = if cfg.mixed { single.map(|s| fold_ncr(&s)) } else { single };
        let mut charged = false;
        match single {
            Ok(s) => {
                if s != reft {
                    charged = true;
                    let msg = format!("one call on text [{}] yields [{}], the Standard's encoder yields [{}]", units_short(&scalars), etoks_short(&s), etoks_short(&reft));
                    if l.vios.wants(cfg.tag_single, "single-vs-reference") {
                        let mut j = cfg.to_json();
                        j.put("calls", J::Arr(vec![ECallRec { units: scalars.clone(), cap: scalars.len() * 12 + 64, last: true, fill: 0, dalign: 0, fresh: true, method: 2 }.to_json()]));
                        j.put("loop", J::Bool(true));
                        j.put("detail", J::obj().set("message", J::s(&msg)));
                        l.vios.add(Violation { prop: cfg.tag_single.to_string(), kind: "single-vs-reference".into(), msg, replay: j });
                    } else {
                        l.vios.count_only(cfg.tag_single, "single-vs-reference");
                    }
                }
                if s != chunked {
                    charged = true;
                    let msg = format!("{}: chunked history over text [{}] yields [{}], one call yields [{}]", what, units_short(&scalars), etoks_short(&chunked), etoks_short(&s));
                    self.vio(l, cfg.tag_chunk, "chunked-vs-single", msg, parent, call);
                }
            }
            Err(m) => {
                charged = true;
                self.vio(l, cfg.tag_single, "single-call-panic", format!("one call on [{}] panicked: {}", units_short(&scalars), m), parent, call);
            }
        }
        if !charged {
            self.vio(l, "MACHINERY", "unclassified-divergence", format!("{}: bookkeeping diverged but complete runs agree on [{}]", what, units_short(&scalars)), parent, call);
        }
    }

    #[allow(clippy::too_many_arguments)]
    fn transition(&self, l: &mut Local, id: u32, key: &EKey, units: &[u32], last: bool, fresh: bool, cap: usize, dalign: u8, repl: bool) {
        let cfg = self.cfg;
        let or = &cfg.or;
        let min = ECfg::min_cap_of(repl);
        let call = ECallRec { units: units.to_vec(), cap, last, fill: 0xA5, dalign, fresh, method: if cfg.mixed { repl as u8 } else { 2 } };
        l.stats.transitions += 1;
        let mut enc = key.enc.clone();
        let r = self.do_call(&mut enc, units, last, cap, 0xA5, dalign, repl);
        l.cur_obs = r.as_ref().ok().map(eobs_canon).or(Some("panic".into()));
        let o = match r {
            Ok(o) => o,
            Err(m) => {
                l.stats.class("panic");
                if cap >= min {
                    self.vio(l, "C06", "panic", format!("call panicked with capacity {} >= minimum {}: {}", cap, min, m), id, &call);
                }
                return;
            }
        };
        {
            let rk = match o.res {
                ERes::InputEmpty => 0usize,
                ERes::OutputFull => 1,
                ERes::Unmappable(_) => 2,
            };
            let ci = ((rk * 10 + o.read.min(9)) * 10 + o.written.min(9)) as u16;
            match l.class_counts.iter_mut().find(|e| e.0 == ci) {
                Some(e) => e.1 += 1,
                None => l.class_counts.push((ci, 1)),
            }
        }
        {
            let mut f = Fnv::new();
            for &u in units {
                f = f.u(u as u64);
            }
            let f = f.u(cap as u64).b(last as u8).u(o.read as u64).u(o.written as u64).bytes(&o.out).s(&o.res.short()).b(match o.had_unmappables {
                None => 2,
                Some(b) => b as u8,
            });
            describe(|| format!("{} units {} cap {} last {} -> {}", cfg.label(), units_short(units), cap, last, eobs_canon(&o)));
            l.stats.dig(&self.shard, f);
        }
        let srclen = self.src_len(units);
        // ---- C06
        let mut broken = false;
        if o.read > srclen {
            self.vio(l, "C06", "read-exceeds-source", format!("read {} > source length {}", o.read, srclen), id, &call);
            broken = true;
        }
        if o.written > cap || o.guard_broken {
            self.vio(l, "C06", "write-outside-destination", format!("written {} with capacity {} (guard broken: {})", o.written, cap, o.guard_broken), id, &call);
            broken = true;
        }
        if o.res == ERes::InputEmpty && o.read != srclen {
            self.vio(l, "C06", "inputempty-with-unread-input", format!("InputEmpty with read {} of {}", o.read, srclen), id, &call);
            broken = true;
        }
        if o.container_disturbed {
            self.vio(l, "C06", "container-disturbed", "Vec was reallocated or its existing contents altered".into(), id, &call);
        }
        if broken {
            return;
        }
        // read must fall on a scalar boundary of the chunk as the caller presented it
        let sc = scalars_of_units(units);
        let mut consumed_scalars: Vec<u32> = vec![];
        let mut consumed_units = 0usize;
        {
            let mut acc = 0usize;
            let mut ok = o.read == 0;
            for (c, n) in &sc {
                if acc == o.read {
                    ok = true;
                    break;
                }
                let ulen: usize = units[consumed_units..consumed_units + n].iter().map(|&u| unit_len(u, cfg.source)).sum();
                acc += ulen;
                consumed_units += n;
                consumed_scalars.push(*c);
                if acc == o.read {
                    ok = true;
                    break;
                }
                if acc > o.read {
                    break;
                }
            }
            if !ok {
                self.vio(l, "C04", "read-splits-a-character", format!("read {} falls inside a character / surrogate pair of the source", o.read), id, &call);
                if or.contract {
                    self.vio(l, "C06", "read-splits-a-character", format!("read {} falls inside a character / surrogate pair of the source", o.read), id, &call);
                }
                if or.decode_back {
                    // the halves of a split pair are encoded as two U+FFFD: the output cannot decode
                    // back to the input
                    self.vio(l, "C12", "read-splits-a-character", format!("read {} falls inside a surrogate pair of the source, so the output cannot decode back to the input (out so far: {})", o.read, hex(&o.out)), id, &call);
                }
                return;
            }
        }
        // ---- C18
        if or.prefill3 {
            for f in [0x00u8, 0xFF] {
                let mut e2 = key.enc.clone();
                let r2 = self.do_call(&mut e2, units, last, cap, f, dalign, repl);
                let same = match &r2 {
                    Ok(o2) => o2.res == o.res && o2.read == o.read && o2.written == o.written && o2.out == o.out && o2.had_unmappables == o.had_unmappables && e2 == enc,
                    Err(_) => false,
                };
                if !same {
                    let mut c2 = call.clone();
                    c2.fill = f;
                    let saved = l.cur_obs.take();
                    l.cur_obs = r2.as_ref().ok().map(eobs_canon);
                    self.vio(l, "C18", "result-depends-on-prefill", format!("pre-fill {:02X} gives {:?}; pre-fill A5 gives {}", f, r2.as_ref().map(eobs_canon), eobs_canon(&o)), id, &c2);
                    l.cur_obs = saved;
                    break;
                }
            }
        }
        // ---- C07
        if or.query {
            if let Some(q) = self.query(&key.enc, srclen, repl) {
                let (_, unm) = self.ref_units(key, units, last, repl);
                if cap >= q && o.res == ERes::OutputFull && !(repl && unm) {
                    self.vio(l, "C07", "outputfull-despite-queried-capacity", format!("query for {} input units returned {}, capacity {} offered, result OutputFull (read {}, written {})", srclen, q, cap, o.read, o.written), id, &call);
                }
            }
        }
        // ---- C08 (i)
        let in_domain = cap >= min;
        if or.progress && in_domain && o.res != ERes::InputEmpty {
            let reported = matches!(o.res, ERes::Unmappable(_));
            if o.read == 0 && o.written == 0 && !reported {
                self.vio(l, "C08", "no-progress", format!("{} with read 0 and written 0 at capacity {}", o.res.short(), cap), id, &call);
                return;
            }
        }
        // ---- conformance bookkeeping
        let mut rf = key.rf.clone();
        let mut di = key.di.clone();
        let mut ds = key.ds.clone();
        let mut tmp: Vec<ETok> = vec![];
        for &c in &consumed_scalars {
            tmp.clear();
            rf.push(c, &mut tmp);
            for t in &tmp {
                match t {
                    ETok::Byte(b) => ds.push((EDTok::Byte(*b), false)),
                    ETok::Unmappable(u) => {
                        if repl {
                            for b in ncr(*u) {
                                ds.push((EDTok::Byte(b), true));
                            }
                        } else {
                            ds.push((EDTok::Unmappable(*u), false));
                        }
                    }
                }
            }
        }
        let own_start = di.len();
        for &b in &o.out {
            di.push(EDTok::Byte(b));
        }
        if let ERes::Unmappable(c) = o.res {
            di.push(EDTok::Unmappable(c));
        }
        let fin = o.res == ERes::InputEmpty && last;
        if fin {
            tmp.clear();
            rf.finish(&mut tmp);
            for t in &tmp {
                if let ETok::Byte(b) = t {
                    ds.push((EDTok::Byte(*b), false));
                }
            }
        }
        let mut n = 0;
        let mut own_subst = false;
        while n < di.len() && n < ds.len() && di[n] == ds[n].0 {
            if n >= own_start && ds[n].1 {
                own_subst = true;
            }
            n += 1;
        }
        let diverged = n < di.len() && n < ds.len();
        let own_all_classified = n >= di.len();
        di.drain(..n);
        ds.drain(..n);
        const CAP: usize = 24;
        let mut tainted = key.tainted;
        if or.conform {
            if diverged {
                self.classify(l, "token mismatch", id, &call);
                return;
            }
            if di.len() > CAP || ds.len() > CAP {
                self.classify(l, "output debt overflow", id, &call);
                return;
            }
            if fin && (!di.is_empty() || !ds.is_empty()) {
                self.classify(l, "stream finished with outstanding tokens", id, &call);
                return;
            }
        } else if diverged || di.len() > CAP || ds.len() > CAP || (fin && (!di.is_empty() || !ds.is_empty())) {
            *l.stats.suppressed.entry("conformance".into()).or_insert(0) += 1;
            di.clear();
            ds.clear();
            tainted = true;
        }
        // ---- C09 flag
        if or.flags && repl && !cfg.mixed && own_all_classified && !tainted {
            if o.had_unmappables != Some(own_subst) {
                self.vio(l, if or.flags_prop.is_empty() { "C09" } else { or.flags_prop }, "had-unmappables-flag", format!("had_unmappables = {:?} but this call {} a numeric character reference", o.had_unmappables, if own_subst { "wrote" } else { "did not write" }), id, &call);
            }
        }
        // ---- C12
        let mut back = key.back.clone();
        let mut back_got = key.back_got.clone();
        let mut back_want = key.back_want.clone();
        if or.decode_back {
            if di.is_empty() && ds.is_empty() && !tainted {
                let want_pending = !rf.is_ascii_state();
                if enc.has_pending_state() != want_pending {
                    self.vio(l, "C12", "has-pending-state", format!("has_pending_state() = {} but the stream is {} the ASCII state", enc.has_pending_state(), if want_pending { "outside" } else { "in" }), id, &call);
                }
            }
            if fin && enc.has_pending_state() {
                self.vio(l, "C12", "not-ascii-at-end", "has_pending_state() is true after the final call".into(), id, &call);
            }
            // expected decode-back of the consumed input
            for &c in &consumed_scalars {
                let mut r1 = key.rf.clone(); // state does not matter for mappability
                let mut t1 = vec![];
                r1.push(c, &mut t1);
                match t1.iter().find_map(|t| if let ETok::Unmappable(u) = t { Some(*u) } else { None }) {
                    Some(u) => {
                        // without replacement the driver plays the documented manual
                        // procedure: it appends the NCR itself (see below)
                        for b in ncr(u) {
                            back_want.push(b as u32);
                        }
                    }
                    None => back_want.push(c12_fold(&cfg.enc, c)),
                }
            }
            if let Some(b) = back.as_mut() {
                let mut produced = o.out.clone();
                if let ERes::Unmappable(u) = o.res {
                    produced.extend_from_slice(&ncr(u));
                }
                let mut dst = vec![0u16; produced.len() * 2 + 8];
                let r = std::panic::catch_unwind(std::panic::AssertUnwindSafe(|| b.decode_to_utf16_without_replacement(&produced, &mut dst, false)));
                match r {
                    Ok((encoding_rs::DecoderResult::InputEmpty, _, w)) => {
                        for r in char::decode_utf16(dst[..w].iter().copied()) {
                            back_got.push(r.map(|c| c as u32).unwrap_or(0xFFFD));
                        }
                    }
                    other => {
                        self.vio(l, "C12", "output-rejected-by-decoder", format!("the decoder of {} does not accept the bytes produced so far: {:?}", cfg.enc.output_name(), other.map(|x| format!("{:?}", x.0))), id, &call);
                        return;
                    }
                }
                // output so far must be complete: closing the stream here gives no error
                let mut b2 = b.clone();
                let mut dst2 = vec![0u16; 16];
                let r2 = std::panic::catch_unwind(std::panic::AssertUnwindSafe(|| b2.decode_to_utf16_without_replacement(&[], &mut dst2, true)));
                let mut tail: Vec<u32> = vec![];
                match r2 {
                    Ok((encoding_rs::DecoderResult::InputEmpty, _, w)) => {
                        for r in char::decode_utf16(dst2[..w].iter().copied()) {
                            tail.push(r.map(|c| c as u32).unwrap_or(0xFFFD));
                        }
                    }
                    other => {
                        self.vio(l, "C12", "output-incomplete-for-decoder", format!("decoding the bytes produced so far as a complete stream reports {:?}", other.map(|x| format!("{:?}", x.0))), id, &call);
                        return;
                    }
                }
                // compare (decoded so far + what closing would flush) with the expectation
                let mut got_all = back_got.clone();
                got_all.extend(tail);
                let m = got_all.len().min(back_want.len());
                if got_all[..m] != back_want[..m] || (di.is_empty() && ds.is_empty() && got_all.len() != back_want.len()) {
                    self.vio(l, "C12", "decode-back-mismatch", format!("decoding the output gives [{}], the consumed input (with NCRs and the fixed folds) is [{}]", units_short(&got_all), units_short(&back_want)), id, &call);
                    return;
                }
                // cancel common prefix
                let m2 = back_got.len().min(back_want.len());
                let mut c = 0;
                while c < m2 && back_got[c] == back_want[c] {
                    c += 1;
                }
                back_got.drain(..c);
                back_want.drain(..c);
                if back_got.len() > 16 || back_want.len() > 16 {
                    self.vio(l, "C12", "decode-back-lag", "decoded text lags the input by more than 16 scalars".into(), id, &call);
                    return;
                }
            }
        }
        // ---- C09 twin
        if or.twin && repl && !cfg.mixed && fin {
            self.twin(l, id, &call);
        }
        let rem: Vec<u32> = if o.res == ERes::InputEmpty { vec![] } else { units[consumed_units..].to_vec() };
        let nlast = if o.res == ERes::InputEmpty { false } else { last };
        let nlast = if rem.is_empty() && !last { false } else { nlast };
        let nk = EKey { enc, rf, di, ds, rem, last: nlast && !fin, fin, back, back_got, back_want, tainted };
        let weight = if in_domain { Some(if o.res == ERes::InputEmpty { -4 * o.read as i32 } else { 1 - 4 * o.read as i32 }) } else { None };
        let h = hash_of(&nk);
        match self.index.find(h, |i| *self.keys[i as usize] == nk) {
            Some(i) => {
                // known target: nothing to merge; remember the edge for the progress graph only
                if self.cfg.or.graph {
                    if let Some(w) = weight {
                        l.edges.push((id, i, w));
                    }
                }
            }
            None => {
                // new in this level: drop duplicates found by this work item already
                let dup = l.succs.iter().rev().take(64).any(|s| s.hash == h && matches!(&s.to, Err(k) if **k == nk));
                if dup && !self.cfg.or.graph {
                    return;
                }
                l.succs.push(Succ { parent: id, call, fresh, to: Err(Arc::new(nk)), weight, hash: h })
            }
        }
    }

    fn twin(&self, l: &mut Local, parent: u32, call: &ECallRec) {
        let cfg = self.cfg;
        let mut p = self.path(parent);
        p.push((call.clone(), true));
        let calls: Vec<ECallRec> = p.iter().map(|(c, _)| c.clone()).collect();
        let hist = match run_calls(cfg, &calls) {
            Ok(h) if h.panic.is_none() => h,
            _ => return,
        };
        let mut hist_bytes: Vec<u8> = vec![];
        for o in &hist.obs {
            hist_bytes.extend_from_slice(&o.out);
        }
        // fresh chunks as presented by the caller
        let mut chunks: Vec<Vec<u32>> = vec![];
        let mut closes = false;
        let mut first = true;
        for (c, _) in &p {
            if c.fresh || first {
                chunks.push(c.units.clone());
            }
            first = false;
            closes = c.last;
        }
        // manual procedure on the without-replacement method
        let mut ncfg = cfg.clone();
        ncfg.repl = false;
        let mut manual: Vec<u8> = vec![];
        let mut enc = cfg.enc.imp.new_encoder();
        let nchunks = chunks.len();
        for (i, ch) in chunks.iter().enumerate() {
            let lastf = closes && i + 1 == nchunks;
            let mut rest: Vec<u32> = ch.clone();
            let mut guard = 0;
            loop {
                guard += 1;
                if guard > 64 + 4 * ch.len() {
                    self.vio(l, "C09", "manual-procedure-failed", "no termination".into(), parent, call);
                    return;
                }
                let cap = rest.len() * 12 + 64;
                let d = Dst { cap, fill: 0, align: 0, prior: None };
                let o = match call_units(&mut enc, cfg.source, ESink::Slice, false, &rest, lastf, &d) {
                    Ok(o) => o,
                    Err(m) => {
                        self.vio(l, "C09", "manual-procedure-failed", m, parent, call);
                        return;
                    }
                };
                manual.extend_from_slice(&o.out);
                if let ERes::Unmappable(c) = o.res {
                    manual.extend_from_slice(&ncr(c));
                }
                // advance by read source units
                let mut acc = 0;
                let mut nu = 0;
                for &u in &rest {
                    if acc >= o.read {
                        break;
                    }
                    acc += unit_len(u, cfg.source);
                    nu += 1;
                }
                rest = rest[nu..].to_vec();
                if o.res == ERes::InputEmpty {
                    break;
                }
            }
        }
        if manual != hist_bytes {
            self.vio(l, "C09", "replacement-vs-manual", format!("with replacement: [{}]; manual procedure on the same chunks: [{}]", hex(&hist_bytes), hex(&manual)), parent, call);
        }
    }

    fn node_oracles(&self, l: &mut Local, id: u32, key: &EKey) {
        l.cur_obs = None;
        if self.cfg.or.ladder {
            let max = usize::MAX;
            let ladder: Vec<usize> = vec![0, 1, 2, 3, 1 << 16, 1 << 31, 1 << 32, max / 10, max / 4 - 1, max / 4, max / 4 + 1, max / 3 - 1, max / 3, max / 3 + 1, max / 2 - 1, max / 2, max / 2 + 1, max - 10, max - 3, max - 2, max - 1, max];
            let qs: [(&str, Box<dyn Fn(usize) -> Option<usize>>); 4] = [
                ("max_buffer_length_from_utf8_without_replacement", Box::new(|n| key.enc.max_buffer_length_from_utf8_without_replacement(n))),
                ("max_buffer_length_from_utf8_if_no_unmappables", Box::new(|n| key.enc.max_buffer_length_from_utf8_if_no_unmappables(n))),
                ("max_buffer_length_from_utf16_without_replacement", Box::new(|n| key.enc.max_buffer_length_from_utf16_without_replacement(n))),
                ("max_buffer_length_from_utf16_if_no_unmappables", Box::new(|n| key.enc.max_buffer_length_from_utf16_if_no_unmappables(n))),
            ];
            for (name, q) in qs.iter() {
                let mut prev: Option<Option<usize>> = None;
                for &n in &ladder {
                    let v = q(n);
                    l.stats.evaluations += 1;
                    let ok = match (prev, v) {
                        (None, _) => true,
                        (Some(None), Some(_)) => false,
                        (Some(Some(a)), Some(b)) => b >= a,
                        _ => true,
                    };
                    if !ok {
                        let call = ECallRec { units: vec![], cap: 0, last: false, fill: 0, dalign: 0, fresh: true, method: 2 };
                        self.vio(l, "C07", "query-overflow", format!("{}({}) = {:?} after a smaller argument gave {:?}: not monotone / wrapped", name, n, v, prev.unwrap()), id, &call);
                        break;
                    }
                    prev = Some(v);
                }
            }
        }
    }

    fn expand(&self, id: u32, lo: usize, hi: usize) -> Local {
        let mut l = Local::default();
        l.stats = Stats::new();
        let key = self.keys[id as usize].clone();
        if key.fin {
            return l;
        }
        if !key.in_chunk() && lo == 0 {
            self.node_oracles(&mut l, id, &key);
        }
        let aligns: &[u8] = if self.cfg.or.aligns { &[0, 1, 7, 15] } else { &[0] };
        if key.in_chunk() {
            if lo != 0 {
                return l;
            }
            let src = key.rem.clone();
            let methods: &[bool] = if self.cfg.mixed { &[false, true] } else { std::slice::from_ref(&self.cfg.repl) };
            for &repl in methods {
                for cap in self.caps(&key, &src, key.last, repl) {
                    self.transition(&mut l, id, &key, &src, key.last, false, cap, 0, repl);
                }
            }
        } else {
            for ch in self.chunks.iter().skip(lo).take(hi - lo) {
                let methods: &[bool] = if self.cfg.mixed { &[false, true] } else { std::slice::from_ref(&self.cfg.repl) };
                for last in [false, true] {
                    for &repl in methods {
                        for cap in self.caps(&key, ch, last, repl) {
                            let al: &[u8] = if ch.len() >= 16 { aligns } else { &[0] };
                            for &da in al {
                                self.transition(&mut l, id, &key, ch, last, true, cap, da, repl);
                            }
                        }
                    }
                }
            }
        }
        l
    }

    pub fn run(mut self) -> XOut {
        let cfg = self.cfg;
        let mut stats = Stats::new();
        stats.configs = 1;
        let mut vios = VioSet::default();
        let out_enc = crate::spec::enc(cfg.enc.output_name());
        let back = if cfg.or.decode_back { Some(out_enc.imp.new_decoder_without_bom_handling()) } else { None };
        let root = Arc::new(EKey { enc: cfg.enc.imp.new_encoder(), rf: cfg.enc.ref_encoder(), di: vec![], ds: vec![], rem: vec![], last: false, fin: false, back, back_got: vec![], back_want: vec![], tainted: false });
        let dummy = ECallRec { units: vec![], cap: 0, last: false, fill: 0, dalign: 0, fresh: true, method: 2 };
        self.nodes.push(NodeMeta { parent: 0, call: dummy.clone(), fresh: true });
        self.keys.push(root.clone());
        self.nodes.push(NodeMeta { parent: 0, call: dummy, fresh: true });
        self.keys.push(root.clone());
        self.index.insert(hash_of(&*root), 1);
        let mut frontier: Vec<u32> = vec![1];
        let mut depth = 0u64;
        while !frontier.is_empty() {
            depth += 1;
            let mut items: Vec<(u32, usize, usize)> = vec![];
            for &id in &frontier {
                let k = &self.keys[id as usize];
                if k.fin || k.in_chunk() {
                    items.push((id, 0, usize::MAX));
                } else {
                    let mut lo = 0;
                    while lo < self.chunks.len() {
                        items.push((id, lo, lo + 64));
                        lo += 64;
                    }
                }
            }
            let mut next: Vec<u32> = vec![];
            let mut class_total = vec![0u64; 300];
            // batches bound the transient memory of a level (successors found by many workers)
            let mut stop_level = false;
            for batch in items.chunks(1536) {
                let locals: Vec<Local> = par_map(batch, cfg.threads, |&(id, lo, hi)| {
                    // a panic here is a panic of the harness (those of the code under test are caught
                    // per call); it can be the consequence of memory corrupted by the code under test
                    match std::panic::catch_unwind(std::panic::AssertUnwindSafe(|| self.expand(id, lo, hi))) {
                        Ok(l) => l,
                        Err(e) => {
                            let mut l = Local::default();
                            l.stats = Stats::new();
                            l.vios.add(Violation { prop: "MACHINERY".into(), kind: "harness-panic".into(), msg: format!("harness panicked while expanding a state of {}: {}", self.cfg.label(), crate::imp::panic_msg(e)), replay: J::obj() });
                            l
                        }
                    }
                });
                for l in locals {
                    for (i, c) in l.class_counts.iter() {
                        if let Some(x) = class_total.get_mut(*i as usize) {
                            *x += c;
                        }
                    }
                    stats.merge(&l.stats);
                    vios.merge(l.vios);
                    if cfg.or.graph {
                        self.edges.extend_from_slice(&l.edges);
                    }
                    for s in l.succs {
                        let to = match s.to {
                            Ok(i) => i,
                            Err(k) => match self.index.find(s.hash, |i| *self.keys[i as usize] == *k) {
                                Some(i) => i,
                                None => {
                                    let i = self.nodes.len() as u32;
                                    if k.fin {
                                        stats.finished_states += 1;
                                    }
                                    self.nodes.push(NodeMeta { parent: s.parent, call: s.call.clone(), fresh: s.fresh });
                                    self.keys.push(k.clone());
                                    self.index.insert(s.hash, i);
                                    next.push(i);
                                    i
                                }
                            },
                        };
                        if cfg.or.graph {
                            if let Some(w) = s.weight {
                                self.edges.push((s.parent, to, w));
                            }
                        }
                    }
                }
                if rss_bytes() > rss_cap_bytes() || self.nodes.len() > cfg.max_states {
                    stop_level = true;
                    break;
                }
            }
            if stop_level {
                stats.exhaustive = false;
                stats.caps_hit.push(format!("{}: stopped inside depth {} with {} states (memory cap {} GB or state cap {} reached); everything below that depth was explored completely", cfg.label(), depth, self.nodes.len(), rss_cap_bytes() >> 30, cfg.max_states));
                stats.max_depth = depth as u64;
                break;
            }
            for (i, c) in class_total.iter().enumerate() {
                if *c > 0 {
                    *stats.classes.entry(class_name(i)).or_insert(0) += c;
                }
            }
            stats.max_depth = depth;
            if vios.total() >= 500 {
                stats.exhaustive = false;
                stats.caps_hit.push(format!("{}: exploration stopped after depth {} because {} violations were already recorded", cfg.label(), depth, vios.total()));
                break;
            }
            if rss_bytes() > rss_cap_bytes() {
                stats.exhaustive = false;
                stats.caps_hit.push(format!("{}: stopped at depth {} with {} states because the process reached the memory cap of {} GB (VERIF_MAX_RSS_GB)", cfg.label(), depth, self.nodes.len(), rss_cap_bytes() >> 30));
                break;
            }
            if self.nodes.len() > cfg.max_states {
                stats.exhaustive = false;
                stats.caps_hit.push(format!("{}: state cap {} reached at depth {}", cfg.label(), cfg.max_states, depth));
                break;
            }
            frontier = next;
        }
        stats.states = (self.nodes.len() - 1) as u64;
        if self.nodes.len() > 2 {
            let lastn = self.nodes.len() - 1;
            let p = self.path(lastn as u32);
            let calls: Vec<J> = p.iter().map(|(c, _)| c.to_json()).collect();
            stats.samples.push(J::obj().set("config", J::s(&cfg.label())).set("deepest_history", J::Arr(calls)).set("state", J::s(&self.keys[lastn].enc.verif_fingerprint().chars().take(160).collect::<String>())));
        }
        if cfg.or.graph {
            self.progress_graph(&mut stats, &mut vios);
        }
        XOut { stats, vios }
    }

    fn progress_graph(&self, stats: &mut Stats, vios: &mut VioSet) {
        // Longest path from the initial node with edge weight (calls - 4 * input consumed).
        // Relaxation stops as soon as some node exceeds the bound: that already is a history
        // with more than 4n + 16 calls (a positive cycle exceeds every bound after a few rounds).
        const BOUND: i64 = 16;
        let n = self.nodes.len();
        let mut dist: Vec<i64> = vec![i64::MIN; n];
        dist[1] = 0;
        let mut rounds = 0usize;
        let mut changed = true;
        let mut culprit: Option<(u32, i64)> = None;
        'outer: while changed {
            changed = false;
            rounds += 1;
            for &(a, b, w) in &self.edges {
                let da = dist[a as usize];
                if da == i64::MIN {
                    continue;
                }
                if da + w as i64 > dist[b as usize] {
                    dist[b as usize] = da + w as i64;
                    changed = true;
                    if dist[b as usize] > BOUND {
                        culprit = Some((b, dist[b as usize]));
                        break 'outer;
                    }
                }
            }
            if rounds > n + 2 {
                break;
            }
        }
        let maxw = dist.iter().copied().filter(|d| *d != i64::MIN).max().unwrap_or(0);
        stats.notes.push(format!("{}: progress graph {} edges, max path weight (calls - 4*read) = {}, relaxation rounds {}", self.cfg.label(), self.edges.len(), maxw, rounds));
        if let Some((c, w)) = culprit {
            let call = self.nodes[c as usize].call.clone();
            let parent = self.nodes[c as usize].parent;
            let mut l = Local::default();
            self.vio(&mut l, "C08", "linear-bound-exceeded", format!("the call graph contains a history with at least {} more calls than 4x the input it consumed (bound {}): the documented loop is not linearly bounded / need not terminate", w, BOUND), parent, &call);
            vios.merge(l.vios);
        }
    }
}

pub fn units_short(u: &[u32]) -> String {
    u.iter().map(|c| format!("U+{:04X}", c)).collect::<Vec<_>>().join(" ")
}

/// One real call with the source given as units.
pub fn call_units(enc: &mut Encoder, source: Source, sink: ESink, repl: bool, units: &[u32], last: bool, d: &Dst) -> Result<EncObs, String> {
    match source {
        Source::Utf8 => {
            let s: String = units.iter().map(|&c| char::from_u32(c).expect("UTF-8 sources contain scalar values only")).collect();
            // exact heap copy so that reads beyond the source are visible to sanitizers
            let b: Box<str> = s.into_boxed_str();
            call_encoder(enc, source, sink, repl, &b, &[], last, d)
        }
        Source::Utf16 => {
            let v: Box<[u16]> = units16(units).into_boxed_slice();
            call_encoder(enc, source, sink, repl, "", &v, last, d)
        }
    }
}

pub struct ERun {
    pub obs: Vec<EncObs>,
    pub toks: Vec<ETok>,
    pub panic: Option<(usize, String)>,
}

/// Executes exactly the given calls on a fresh encoder (public API only).
pub fn run_calls(cfg: &ECfg, calls: &[ECallRec]) -> Result<ERun, String> {
    let mut enc = cfg.enc.imp.new_encoder();
    let mut run = ERun { obs: vec![], toks: vec![], panic: None };
    for (i, c) in calls.iter().enumerate() {
        let d = Dst { cap: c.cap, fill: c.fill, align: c.dalign as usize, prior: None };
        match call_units(&mut enc, cfg.source, cfg.sink, c.repl(cfg.repl), &c.units, c.last, &d) {
            Ok(o) => {
                for &b in &o.out {
                    run.toks.push(ETok::Byte(b));
                }
                if let ERes::Unmappable(u) = o.res {
                    run.toks.push(ETok::Unmappable(u));
                }
                run.obs.push(o);
            }
            Err(m) => {
                run.panic = Some((i, m));
                return Ok(run);
            }
        }
    }
    Ok(run)
}

/// Runs the calls, then completes the stream with ample output. Returns all tokens and the
/// scalar sequence of the whole text as the caller presented it.
pub fn close_history(cfg: &ECfg, calls: &[ECallRec]) -> Result<(Vec<ETok>, Vec<u32>), String> {
    let mut enc = cfg.enc.imp.new_encoder();
    let mut toks: Vec<ETok> = vec![];
    let mut text: Vec<u32> = vec![];
    let mut rem: Vec<u32> = vec![];
    let mut last = false;
    let mut done_chunk = true;
    let mut finished = false;
    let mut one = |enc: &mut Encoder, toks: &mut Vec<ETok>, units: &[u32], cap: usize, lastf: bool, fill: u8, repl: bool| -> Result<(ERes, usize), String> {
        let d = Dst { cap, fill, align: 0, prior: None };
        let o = call_units(enc, cfg.source, cfg.sink, repl, units, lastf, &d)?;
        for &b in &o.out {
            toks.push(ETok::Byte(b));
        }
        if let ERes::Unmappable(u) = o.res {
            toks.push(ETok::Unmappable(u));
        }
        // units consumed
        let mut acc = 0;
        let mut nu = 0;
        for &u in units {
            if acc >= o.read {
                break;
            }
            acc += unit_len(u, cfg.source);
            nu += 1;
        }
        Ok((o.res, nu))
    };
    for c in calls {
        if c.fresh {
            // a fresh chunk: its scalar decomposition is what the text consists of
            for (s, _) in scalars_of_units(&c.units) {
                text.push(s);
            }
        }
        let (res, nu) = one(&mut enc, &mut toks, &c.units, c.cap, c.last, c.fill, c.repl(cfg.repl))?;
        rem = c.units[nu.min(c.units.len())..].to_vec();
        last = c.last;
        done_chunk = res == ERes::InputEmpty;
        if done_chunk && last {
            finished = true;
        }
    }
    let mut guard = 0;
    while !finished {
        guard += 1;
        if guard > 64 + 4 * rem.len() {
            return Err("closing loop does not terminate".into());
        }
        if done_chunk {
            rem = vec![];
            last = true;
        }
        let cap = rem.len() * 12 + 64;
        let (res, nu) = one(&mut enc, &mut toks, &rem.clone(), cap, last, 0, cfg.repl)?;
        rem = rem[nu.min(rem.len())..].to_vec();
        done_chunk = res == ERes::InputEmpty;
        if done_chunk && last {
            finished = true;
        }
    }
    Ok((toks, text))
}

/// The whole text (scalars) in one chunk, documented loop with ample output.
pub fn encode_single(cfg: &ECfg, scalars: &[u32]) -> Result<Vec<ETok>, String> {
    let calls: Vec<ECallRec> = vec![];
    let mut c2 = cfg.clone();
    c2.sink = ESink::Slice;
    // close_history with an initial call holding the whole text
    let first = ECallRec { units: scalars.to_vec(), cap: scalars.len() * 12 + 64, last: true, fill: 0, dalign: 0, fresh: true, method: 2 };
    let mut all = calls;
    all.push(first);
    close_history(&c2, &all).map(|x| x.0)
}

pub fn explore(cfg: &ECfg) -> XOut {
    Explorer::new(cfg).run()
}

pub fn replay(j: &J) -> Result<J, String> {
    let enc = crate::spec::enc(j.get("encoding").and_then(|x| x.as_str()).ok_or("encoding")?);
    let source = if j.get("source").and_then(|x| x.as_str()).ok_or("source")? == "utf8" { Source::Utf8 } else { Source::Utf16 };
    let sink = if j.get("sink").and_then(|x| x.as_str()).ok_or("sink")? == "slice" { ESink::Slice } else { ESink::Vec };
    let repl = j.get("repl").and_then(|x| x.as_bool()).ok_or("repl")?;
    let calls: Vec<ECallRec> = j.get("calls").and_then(|x| x.as_arr()).ok_or("calls")?.iter().map(ECallRec::from_json).collect();
    let cfg = ECfg { enc, source, sink, repl, syms: vec![], k: 0, or: EOracles::default(), threads: 1, max_states: 0, tag_chunk: "C04", tag_single: "C03", mixed: false };
    let render = |run: &ERun| -> J {
        let canon: Vec<J> = run.obs.iter().map(|o| J::s(&eobs_canon(o))).collect();
        let mut r = J::obj().set("canon", J::Arr(canon)).set("tokens", J::s(&etoks_short(&run.toks)));
        if let Some((i, m)) = &run.panic {
            r.put("panic", J::obj().set("call", J::i(*i)).set("message", J::s(m)));
        }
        r
    };
    // sweep cases record the caller's chunks only ("loop": true): expand them into the calls of the
    // documented loop (same capacity, unconsumed input re-pushed until InputEmpty)
    let mut calls = calls;
    if j.get("loop").and_then(|x| x.as_bool()) == Some(true) {
        let chunks = std::mem::take(&mut calls);
        for ch in chunks {
            let mut cur = ch.clone();
            for _ in 0..8 * ch.units.len() + 64 {
                calls.push(cur.clone());
                let r = run_calls(&cfg, &calls)?;
                if r.panic.is_some() {
                    break;
                }
                let o = match r.obs.last() {
                    Some(o) => o,
                    None => break,
                };
                if o.res == ERes::InputEmpty {
                    break;
                }
                // `read` counts bytes (UTF-8 source) or code units (UTF-16 source)
                let mut left = o.read;
                let mut idx = 0;
                while idx < cur.units.len() && left > 0 {
                    let c = cur.units[idx];
                    let n = if source == Source::Utf8 {
                        if c < 0x80 { 1 } else if c < 0x800 { 2 } else if c < 0x10000 { 3 } else { 4 }
                    } else if c >= 0x10000 { 2 } else { 1 };
                    if n > left {
                        break;
                    }
                    left -= n;
                    idx += 1;
                }
                if left != 0 {
                    break;
                }
                cur.units = cur.units[idx..].to_vec();
                cur.fresh = false;
            }
        }
    }
    let a = run_calls(&cfg, &calls)?;
    let b = run_calls(&cfg, &calls)?;
    let (ja, jb) = (render(&a), render(&b));
    if ja != jb {
        return Err("replay is not deterministic".into());
    }
    Ok(ja)
}
