//! Driver for the real converters: one function per call shape, with guard bands, pre-fill,
//! panic capture and observation records. Uses the public API only (plus Clone from the hook
//! where the explorer needs to branch).
use crate::spec::dec::BomMode;
use crate::spec::Enc;
use encoding_rs::{CoderResult, Decoder, DecoderResult, Encoder, EncoderResult, Encoding};
use std::panic::{catch_unwind, AssertUnwindSafe};

pub fn imp_static(name: &str) -> &'static Encoding {
    use encoding_rs::*;
    match name {
        "UTF-8" => UTF_8,
        "IBM866" => IBM866,
        "ISO-8859-2" => ISO_8859_2,
        "ISO-8859-3" => ISO_8859_3,
        "ISO-8859-4" => ISO_8859_4,
        "ISO-8859-5" => ISO_8859_5,
        "ISO-8859-6" => ISO_8859_6,
        "ISO-8859-7" => ISO_8859_7,
        "ISO-8859-8" => ISO_8859_8,
        "ISO-8859-8-I" => ISO_8859_8_I,
        "ISO-8859-10" => ISO_8859_10,
        "ISO-8859-13" => ISO_8859_13,
        "ISO-8859-14" => ISO_8859_14,
        "ISO-8859-15" => ISO_8859_15,
        "ISO-8859-16" => ISO_8859_16,
        "KOI8-R" => KOI8_R,
        "KOI8-U" => KOI8_U,
        "macintosh" => MACINTOSH,
        "windows-874" => WINDOWS_874,
        "windows-1250" => WINDOWS_1250,
        "windows-1251" => WINDOWS_1251,
        "windows-1252" => WINDOWS_1252,
        "windows-1253" => WINDOWS_1253,
        "windows-1254" => WINDOWS_1254,
        "windows-1255" => WINDOWS_1255,
        "windows-1256" => WINDOWS_1256,
        "windows-1257" => WINDOWS_1257,
        "windows-1258" => WINDOWS_1258,
        "x-mac-cyrillic" => X_MAC_CYRILLIC,
        "GBK" => GBK,
        "gb18030" => GB18030,
        "Big5" => BIG5,
        "EUC-JP" => EUC_JP,
        "ISO-2022-JP" => ISO_2022_JP,
        "Shift_JIS" => SHIFT_JIS,
        "EUC-KR" => EUC_KR,
        "replacement" => REPLACEMENT,
        "UTF-16BE" => UTF_16BE,
        "UTF-16LE" => UTF_16LE,
        "x-user-defined" => X_USER_DEFINED,
        _ => panic!("unknown encoding name {}", name),
    }
}

pub static LAST_PANIC: std::sync::Mutex<String> = std::sync::Mutex::new(String::new());

/// Panics of the crate under test are expected and captured per call; the hook stays quiet but
/// remembers the last message and location so that a panic of the harness itself can be reported.
pub fn install_quiet_panic_hook() {
    std::panic::set_hook(Box::new(|info| {
        if format!("{}", info).contains("unsafe precondition") {
            // e.g. std's "unsafe precondition(s) violated" checks in builds with debug assertions:
            // the process is about to abort, so say why
            eprintln!("NON-UNWINDING PANIC (process aborts): {}", info);
        }
        let own = info.location().map(|l| !l.file().starts_with("/repo") && !l.file().contains("x.rs")).unwrap_or(true);
        if own {
            if let Ok(mut g) = LAST_PANIC.try_lock() {
                if g.len() < 2000 {
                    g.push_str(&format!("{} || ", info));
                }
            }
        }
    }));
}

#[derive(Clone, Copy, PartialEq, Eq, Hash, Debug)]
pub enum Sink {
    Utf8,
    Utf16,
    Str,
    String,
}

impl Sink {
    pub fn name(&self) -> &'static str {
        match self {
            Sink::Utf8 => "utf8",
            Sink::Utf16 => "utf16",
            Sink::Str => "str",
            Sink::String => "string",
        }
    }
    pub fn parse(s: &str) -> Sink {
        match s {
            "utf8" => Sink::Utf8,
            "utf16" => Sink::Utf16,
            "str" => Sink::Str,
            "string" => Sink::String,
            _ => panic!("bad sink {}", s),
        }
    }
    /// documented minimum capacity in units
    pub fn min_cap(&self) -> usize {
        match self {
            Sink::Utf16 => 2,
            _ => 4,
        }
    }
    pub fn is_utf16(&self) -> bool {
        matches!(self, Sink::Utf16)
    }
}

#[derive(Clone, Copy, PartialEq, Eq, Hash, Debug)]
pub enum Res {
    InputEmpty,
    OutputFull,
    Malformed(u8, u8),
}

impl Res {
    pub fn short(&self) -> String {
        match self {
            Res::InputEmpty => "InputEmpty".into(),
            Res::OutputFull => "OutputFull".into(),
            Res::Malformed(a, b) => format!("Malformed({},{})", a, b),
        }
    }
}

#[derive(Clone, PartialEq, Eq, Debug)]
pub struct DecObs {
    pub res: Res,
    pub read: usize,
    pub written: usize,
    pub had_errors: Option<bool>,
    /// the written prefix, as bytes (UTF-8 sinks) or units (UTF-16)
    pub out8: Vec<u8>,
    pub out16: Vec<u16>,
    /// problems detected by the monitors of this call
    pub guard_broken: bool,
    /// entire destination invalid afterwards (str/String sinks)
    pub whole_invalid: bool,
    /// String/Vec receivers: reallocated or prefix altered
    pub container_disturbed: bool,
}

pub fn new_decoder(e: &Enc, bom: BomMode) -> Decoder {
    match bom {
        BomMode::Off => e.imp.new_decoder_without_bom_handling(),
        BomMode::Sniff => e.imp.new_decoder(),
        BomMode::Remove => e.imp.new_decoder_with_bom_removal(),
    }
}

/// Guard band (elements) on both sides of every slice destination: 32 normally, 1024 in the
/// repetition after a crash of the harness process (VERIF_SLICE_SINKS_ONLY), so that a stray
/// write far beyond the destination lands in the band instead of the allocator's metadata.
#[allow(non_snake_case)]
fn GUARD() -> usize {
    use std::sync::OnceLock;
    static G: OnceLock<usize> = OnceLock::new();
    *G.get_or_init(|| if std::env::var("VERIF_SLICE_SINKS_ONLY").map(|v| v == "1").unwrap_or(false) { 1024 } else { 32 })
}
const GUARD8: u8 = 0x5C;
const GUARD16: u16 = 0x5C5C;

/// Element index >= GUARD at which a buffer starting at `base` (elements of `unit` bytes) has
/// address % 16 == (align * unit) % 16.
pub fn aligned_lo(base: usize, unit: usize, align: usize) -> usize {
    let want = (align * unit) % 16;
    let at_guard = (base + GUARD() * unit) % 16;
    let delta_bytes = (want + 16 - at_guard) % 16;
    GUARD() + delta_bytes / unit
}

/// Copies `src` into a fresh allocation so that it starts at address % 16 == align and ends at
/// the end of the slice handed to `f` (the allocation continues with poison bytes).
pub fn with_aligned_src<T>(src: &[u8], align: usize, f: impl FnOnce(&[u8]) -> T) -> T {
    if align == 0 {
        // exact heap copy
        let b: Box<[u8]> = src.to_vec().into_boxed_slice();
        return f(&b);
    }
    let mut buf = vec![0xF8u8; src.len() + 32];
    let base = buf.as_ptr() as usize;
    let off = (align + 16 - base % 16) % 16;
    buf[off..off + src.len()].copy_from_slice(src);
    f(&buf[off..off + src.len()])
}

fn res_of(r: DecoderResult) -> Res {
    match r {
        DecoderResult::InputEmpty => Res::InputEmpty,
        DecoderResult::OutputFull => Res::OutputFull,
        DecoderResult::Malformed(a, b) => Res::Malformed(a, b),
    }
}
fn res_of_coder(r: CoderResult) -> Res {
    match r {
        CoderResult::InputEmpty => Res::InputEmpty,
        CoderResult::OutputFull => Res::OutputFull,
    }
}

/// Parameters of the destination for one call.
#[derive(Clone, Debug)]
pub struct Dst<'a> {
    pub cap: usize,
    /// pre-fill byte for slices / spare capacity (slices: any byte; str: must be ASCII)
    pub fill: u8,
    /// start offset of the destination inside its allocation (alignment), 0..15
    pub align: usize,
    /// for Str sinks: exact prior content to use instead of `fill` (len == cap), valid UTF-8
    pub prior: Option<&'a str>,
}

/// One real decoder call. `Err(msg)` = the call panicked.
pub fn call_decoder(dec: &mut Decoder, sink: Sink, repl: bool, src: &[u8], last: bool, d: &Dst) -> Result<DecObs, String> {
    let cap = d.cap;
    let r = catch_unwind(AssertUnwindSafe(|| match sink {
        Sink::Utf8 => {
            let mut buf = vec![GUARD8; GUARD() + 16 + cap + GUARD()];
            let lo = aligned_lo(buf.as_ptr() as usize, 1, d.align);
            for x in &mut buf[lo..lo + cap] {
                *x = d.fill;
            }
            let (res, read, written, he) = {
                let dst = &mut buf[lo..lo + cap];
                if repl {
                    let (r, a, b, h) = dec.decode_to_utf8(src, dst, last);
                    (res_of_coder(r), a, b, Some(h))
                } else {
                    let (r, a, b) = dec.decode_to_utf8_without_replacement(src, dst, last);
                    (res_of(r), a, b, None)
                }
            };
            let guard_broken = buf[..lo].iter().any(|&x| x != GUARD8) || buf[lo + cap..].iter().any(|&x| x != GUARD8);
            let w = written.min(cap);
            DecObs {
                res,
                read,
                written,
                had_errors: he,
                out8: buf[lo..lo + w].to_vec(),
                out16: vec![],
                guard_broken,
                whole_invalid: false,
                container_disturbed: false,
            }
        }
        Sink::Utf16 => {
            let mut buf = vec![GUARD16; GUARD() + 16 + cap + GUARD()];
            let lo = aligned_lo(buf.as_ptr() as usize, 2, d.align);
            let f16 = (d.fill as u16) << 8 | d.fill as u16;
            for x in &mut buf[lo..lo + cap] {
                *x = f16;
            }
            let (res, read, written, he) = {
                let dst = &mut buf[lo..lo + cap];
                if repl {
                    let (r, a, b, h) = dec.decode_to_utf16(src, dst, last);
                    (res_of_coder(r), a, b, Some(h))
                } else {
                    let (r, a, b) = dec.decode_to_utf16_without_replacement(src, dst, last);
                    (res_of(r), a, b, None)
                }
            };
            let guard_broken = buf[..lo].iter().any(|&x| x != GUARD16) || buf[lo + cap..].iter().any(|&x| x != GUARD16);
            let w = written.min(cap);
            DecObs {
                res,
                read,
                written,
                had_errors: he,
                out8: vec![],
                out16: buf[lo..lo + w].to_vec(),
                guard_broken,
                whole_invalid: false,
                container_disturbed: false,
            }
        }
        Sink::Str => {
            // a String that owns exactly the offered str; guard bands are not possible for a
            // safe &mut str, but the whole destination is validated afterwards
            let mut s: String = match d.prior {
                Some(p) => {
                    assert_eq!(p.len(), cap);
                    p.to_string()
                }
                None => {
                    assert!(d.fill < 0x80);
                    std::iter::repeat(d.fill as char).take(cap).collect()
                }
            };
            let (res, read, written, he) = if repl {
                let (r, a, b, h) = dec.decode_to_str(src, &mut s, last);
                (res_of_coder(r), a, b, Some(h))
            } else {
                let (r, a, b) = dec.decode_to_str_without_replacement(src, &mut s, last);
                (res_of(r), a, b, None)
            };
            // The safe API handed back a str: inspect its bytes without trusting validity.
            let bytes: Vec<u8> = s.as_bytes().to_vec();
            let whole_invalid = std::str::from_utf8(&bytes).is_err() || bytes.len() != cap;
            let w = written.min(bytes.len());
            DecObs {
                res,
                read,
                written,
                had_errors: he,
                out8: bytes[..w].to_vec(),
                out16: vec![],
                guard_broken: false,
                whole_invalid,
                container_disturbed: false,
            }
        }
        Sink::String => {
            const PREFIX: &str = "pré€";
            let mut s = String::with_capacity(PREFIX.len() + cap);
            s.push_str(PREFIX);
            let cap0 = s.capacity();
            let ptr0 = s.as_ptr();
            // pre-fill the spare capacity
            unsafe {
                let v = s.as_mut_vec();
                for m in v.spare_capacity_mut() {
                    m.write(d.fill);
                }
            }
            let spare = cap0 - PREFIX.len();
            let (res, read, written, he) = if repl {
                let (r, a, h) = dec.decode_to_string(src, &mut s, last);
                (res_of_coder(r), a, 0usize, Some(h))
            } else {
                let (r, a) = dec.decode_to_string_without_replacement(src, &mut s, last);
                (res_of(r), a, 0usize, None)
            };
            let _ = written;
            let bytes: Vec<u8> = s.as_bytes().to_vec();
            let whole_invalid = std::str::from_utf8(&bytes).is_err();
            let disturbed = s.capacity() != cap0 || s.as_ptr() != ptr0 || bytes.len() < PREFIX.len() || &bytes[..PREFIX.len()] != PREFIX.as_bytes();
            let w = bytes.len().saturating_sub(PREFIX.len());
            DecObs {
                res,
                read,
                written: w,
                had_errors: he,
                out8: bytes[PREFIX.len().min(bytes.len())..].to_vec(),
                out16: vec![],
                guard_broken: w > spare,
                whole_invalid,
                container_disturbed: disturbed,
            }
        }
    }));
    r.map_err(|e| panic_msg(e))
}

/// The spare capacity a `String` sink really offers for a requested capacity.
pub fn string_sink_capacity(cap: usize) -> usize {
    let s = String::with_capacity("pré€".len() + cap);
    s.capacity() - "pré€".len()
}

pub fn panic_msg(e: Box<dyn std::any::Any + Send>) -> String {
    if let Some(s) = e.downcast_ref::<&str>() {
        s.to_string()
    } else if let Some(s) = e.downcast_ref::<String>() {
        s.clone()
    } else {
        "panic".to_string()
    }
}

/// Scalars of a written prefix; Err = not well-formed / not whole characters.
pub fn scalars(obs: &DecObs, sink: Sink) -> Result<Vec<u32>, String> {
    if sink.is_utf16() {
        let mut v = Vec::with_capacity(obs.out16.len());
        for r in char::decode_utf16(obs.out16.iter().copied()) {
            match r {
                Ok(c) => v.push(c as u32),
                Err(e) => return Err(format!("unpaired surrogate {:04X} in written UTF-16", e.unpaired_surrogate())),
            }
        }
        Ok(v)
    } else {
        match std::str::from_utf8(&obs.out8) {
            Ok(s) => Ok(s.chars().map(|c| c as u32).collect()),
            Err(e) => Err(format!("written UTF-8 invalid at {}", e.valid_up_to())),
        }
    }
}

// ---------------------------------------------------------------------------------------------
// Encoders

#[derive(Clone, Copy, PartialEq, Eq, Hash, Debug)]
pub enum Source {
    Utf8,
    Utf16,
}

#[derive(Clone, Copy, PartialEq, Eq, Hash, Debug)]
pub enum ESink {
    Slice,
    Vec,
}

#[derive(Clone, Copy, PartialEq, Eq, Hash, Debug)]
pub enum ERes {
    InputEmpty,
    OutputFull,
    Unmappable(u32),
}

impl ERes {
    pub fn short(&self) -> String {
        match self {
            ERes::InputEmpty => "InputEmpty".into(),
            ERes::OutputFull => "OutputFull".into(),
            ERes::Unmappable(c) => format!("Unmappable(U+{:04X})", c),
        }
    }
}

#[derive(Clone, PartialEq, Eq, Debug)]
pub struct EncObs {
    pub res: ERes,
    pub read: usize,
    pub written: usize,
    pub had_unmappables: Option<bool>,
    pub out: Vec<u8>,
    pub guard_broken: bool,
    pub container_disturbed: bool,
}

fn eres_of(r: EncoderResult) -> ERes {
    match r {
        EncoderResult::InputEmpty => ERes::InputEmpty,
        EncoderResult::OutputFull => ERes::OutputFull,
        EncoderResult::Unmappable(c) => ERes::Unmappable(c as u32),
    }
}
fn eres_of_coder(r: CoderResult) -> ERes {
    match r {
        CoderResult::InputEmpty => ERes::InputEmpty,
        CoderResult::OutputFull => ERes::OutputFull,
    }
}

/// Text as both forms. `units16` may contain unpaired surrogates; then `utf8` is None.
#[derive(Clone, Debug)]
pub struct Text<'a> {
    pub utf8: Option<&'a str>,
    pub utf16: &'a [u16],
}

/// One real encoder call. For `Source::Utf8` `src8` is used, for `Source::Utf16` `src16`.
/// `align16`: element offset of the UTF-16 source inside its allocation.
pub fn call_encoder(
    enc: &mut Encoder,
    source: Source,
    sink: ESink,
    repl: bool,
    src8: &str,
    src16: &[u16],
    last: bool,
    d: &Dst,
) -> Result<EncObs, String> {
    let cap = d.cap;
    let r = catch_unwind(AssertUnwindSafe(|| match sink {
        ESink::Slice => {
            let mut buf = vec![GUARD8; GUARD() + 16 + cap + GUARD()];
            let lo = aligned_lo(buf.as_ptr() as usize, 1, d.align);
            for x in &mut buf[lo..lo + cap] {
                *x = d.fill;
            }
            let (res, read, written, hu) = {
                let dst = &mut buf[lo..lo + cap];
                match (source, repl) {
                    (Source::Utf8, true) => {
                        let (r, a, b, h) = enc.encode_from_utf8(src8, dst, last);
                        (eres_of_coder(r), a, b, Some(h))
                    }
                    (Source::Utf8, false) => {
                        let (r, a, b) = enc.encode_from_utf8_without_replacement(src8, dst, last);
                        (eres_of(r), a, b, None)
                    }
                    (Source::Utf16, true) => {
                        let (r, a, b, h) = enc.encode_from_utf16(src16, dst, last);
                        (eres_of_coder(r), a, b, Some(h))
                    }
                    (Source::Utf16, false) => {
                        let (r, a, b) = enc.encode_from_utf16_without_replacement(src16, dst, last);
                        (eres_of(r), a, b, None)
                    }
                }
            };
            let guard_broken = buf[..lo].iter().any(|&x| x != GUARD8) || buf[lo + cap..].iter().any(|&x| x != GUARD8);
            let w = written.min(cap);
            EncObs { res, read, written, had_unmappables: hu, out: buf[lo..lo + w].to_vec(), guard_broken, container_disturbed: false }
        }
        ESink::Vec => {
            const PREFIX: &[u8] = b"\xFFpre";
            let mut v: Vec<u8> = Vec::with_capacity(PREFIX.len() + cap);
            v.extend_from_slice(PREFIX);
            let cap0 = v.capacity();
            let ptr0 = v.as_ptr();
            for m in v.spare_capacity_mut() {
                m.write(d.fill);
            }
            let spare = cap0 - PREFIX.len();
            assert!(matches!(source, Source::Utf8), "Vec sink exists only for UTF-8 sources");
            let (res, read, hu) = if repl {
                let (r, a, h) = enc.encode_from_utf8_to_vec(src8, &mut v, last);
                (eres_of_coder(r), a, Some(h))
            } else {
                let (r, a) = enc.encode_from_utf8_to_vec_without_replacement(src8, &mut v, last);
                (eres_of(r), a, None)
            };
            let disturbed = v.capacity() != cap0 || v.as_ptr() != ptr0 || v.len() < PREFIX.len() || &v[..PREFIX.len()] != PREFIX;
            let w = v.len().saturating_sub(PREFIX.len());
            EncObs {
                res,
                read,
                written: w,
                had_unmappables: hu,
                out: v[PREFIX.len().min(v.len())..].to_vec(),
                guard_broken: w > spare,
                container_disturbed: disturbed,
            }
        }
    }));
    r.map_err(|e| panic_msg(e))
}

pub fn vec_sink_capacity(cap: usize) -> usize {
    let v: Vec<u8> = Vec::with_capacity(4 + cap);
    v.capacity() - 4
}

pub fn hex(b: &[u8]) -> String {
    let mut s = String::with_capacity(b.len() * 2);
    for x in b {
        s.push_str(&format!("{:02X}", x));
    }
    s
}
pub fn unhex(s: &str) -> Vec<u8> {
    (0..s.len() / 2).map(|i| u8::from_str_radix(&s[2 * i..2 * i + 2], 16).unwrap()).collect()
}
pub fn hex16(b: &[u16]) -> String {
    b.iter().map(|x| format!("{:04X}", x)).collect::<Vec<_>>().join(" ")
}
