#!/bin/bash
# C17: the same deterministic corpus is executed in every build configuration of the crate and
# the digests of the logical outputs are compared with the default build (DESIGN.md section 6, C17).
set -u
TIER="${1:-quick}"
cd "$(dirname "$0")"
V="$(pwd)"
export VERIF_ROOT="$V"
# inside a `vp run --with-repo` snapshot: build against the snapshot of /repo's HEAD, so that
# temporary edits of /repo (seeded changes being evaluated) cannot leak into a long run
if [ -n "${VP_RUN_REPO:-}" ] && [ "$V" != "/verif" ] && [ -d "$VP_RUN_REPO/src" ]; then
  sed -i "s|path = \"/repo\"|path = \"$VP_RUN_REPO\"|" "$V/harness/Cargo.toml"
fi
export CARGO_NET_OFFLINE=true MALLOC_TRIM_THRESHOLD_=2000000000 MALLOC_TOP_PAD_=67108864
T0=$(date +%s.%N)
# name|toolchain|cargo feature args
CFGS_QUICK="default||
fast-legacy||--features fast-legacy
less-slow||--features less-slow
simd-std|+nightly|--features simd-accel,std"
CFGS_MORE="less-slow-fast||--features less-slow,fast-legacy
simd-nostd|+nightly|--features simd-accel
simd-std-fast|+nightly|--features simd-accel,std,fast-legacy"
if [ "$TIER" = "thorough" ]; then CFGS="$CFGS_QUICK
$CFGS_MORE"; else CFGS="$CFGS_QUICK"; fi
mkdir -p $V/c17
# ---- build all configurations (in parallel; each has its own target directory)
PIDS=""
while IFS='|' read -r NAME TOOL ARGS; do
  [ -z "$NAME" ] && continue
  ( cd $V/harness && flock $V/.build-target-$NAME.lock env CARGO_TARGET_DIR=$V/target-$NAME cargo $TOOL build --release --offline $ARGS >$V/.build-target-$NAME.log 2>&1 ) &
  PIDS="$PIDS $!"
done <<< "$CFGS"
FAIL=0
for P in $PIDS; do wait $P || FAIL=1; done
if [ $FAIL -ne 0 ]; then echo "MACHINERY: a build configuration failed to build (see $V/.build-target-*.log)" >&2; tail -5 $V/.build-target-*.log >&2; exit 2; fi
# ---- run the corpus in every configuration (sequentially: each run uses all cores)
while IFS='|' read -r NAME TOOL ARGS; do
  [ -z "$NAME" ] && continue
  mkdir -p $V/c17/$NAME
  rm -f $V/c17/$NAME/digests.txt
  VERIF_DIR=$V/c17/$NAME VERIF_DIGEST_OUT=$V/c17/$NAME/digests.txt $V/target-$NAME/release/vh check C17CORPUS --tier "$TIER" > $V/c17/$NAME/run.log 2>&1
  RC=$?
  if [ ! -s $V/c17/$NAME/digests.txt ]; then echo "MACHINERY: corpus run failed in configuration $NAME (exit $RC)" >&2; tail -5 $V/c17/$NAME/run.log >&2; exit 2; fi
done <<< "$CFGS"
T1=$(date +%s.%N)
exec python3 $V/tools/c17_compare.py "$TIER" "$T0" "$T1" $(echo "$CFGS" | cut -d'|' -f1 | tr '\n' ' ')
